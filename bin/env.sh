# Common environment for every command of the verification machinery.
export GOFLAGS=-mod=mod GOPROXY=off GOSUMDB=off GONOSUMDB='*' GONOSUMCHECK=1 GOTOOLCHAIN=local GOWORK=off CGO_ENABLED=1
VERIF_ROOT="$(cd "$(dirname "${BASH_SOURCE[0]}")/.." && pwd)"
export VERIF_ROOT
REPO="${VERIF_REPO:-/repo}"
# toolchain: go1.26.8 is documented as pre-installed; the repo's own 1.26.2 is the fallback
for cand in /opt/veriftools/go1.26.8/bin /root/go/pkg/mod/golang.org/toolchain@v0.0.1-go1.26.2.linux-amd64/bin; do
  if [ -x "$cand/go" ]; then GOBIN_DIR="$cand"; break; fi
done
if [ -z "${GOBIN_DIR:-}" ]; then echo "verif: no usable Go toolchain found" >&2; exit 2; fi
export PATH="$GOBIN_DIR:$PATH"
CACHE="$VERIF_ROOT/.cache"
mkdir -p "$CACHE"
