package main

// applyProbes inserts the few observation points the public API does not
// offer. Each probe is anchored by function name; a missing anchor is an
// infrastructure failure (exit 2), never a verdict.
func applyProbes(root string) {
}
