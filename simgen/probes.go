package main

import (
	"go/ast"
	"go/parser"
	"go/token"
	"path/filepath"

	"golang.org/x/tools/go/ast/astutil"
)

// probe describes one inserted observation point: a call placed at the entry
// of a function identified by file, receiver type and name.
type probe struct {
	file string // relative to the repository root
	recv string // receiver type name without '*', "" for plain functions
	fn   string
	call string // Go expression, may use the function's parameters / receiver and the zzsimrt package
}

// The properties that need an observation the public API does not offer:
// C18 counts live in-memory swamp objects per name.
var probes = []probe{
	{"app/core/hydra/swamp/swamp.go", "", "New", `zzsimrt.ProbeAdd("swamp_live:"+name.Get(), 1)`},
	{"app/core/hydra/swamp/swamp.go", "swamp", "sendClosedEvent", `zzsimrt.ProbeAdd("swamp_live:"+s.name.Get(), -1)`},
	// a cooperative scheduling point ("buggify"): whatever a request decided before it takes a record's guard is
	// what a concurrent request can invalidate, so runs may preempt right here with a high probability
	{"app/core/hydra/swamp/treasure/guard/guard.go", "guard", "StartTreasureGuard", `zzsimrt.HotYield()`},
}

// applyProbes inserts the probes. A missing anchor is an infrastructure
// failure (exit 2), never a verdict.
func applyProbes(root string) {
	byFile := map[string][]probe{}
	for _, p := range probes {
		byFile[p.file] = append(byFile[p.file], p)
	}
	for rel, ps := range byFile {
		path := filepath.Join(root, rel)
		fset := token.NewFileSet()
		f, err := parser.ParseFile(fset, path, nil, parser.ParseComments)
		if err != nil {
			die("probe: parse %s: %v", rel, err)
		}
		for _, p := range ps {
			found := false
			for _, d := range f.Decls {
				fd, ok := d.(*ast.FuncDecl)
				if !ok || fd.Name.Name != p.fn || fd.Body == nil {
					continue
				}
				recv := ""
				if fd.Recv != nil && len(fd.Recv.List) == 1 {
					t := fd.Recv.List[0].Type
					if st, ok := t.(*ast.StarExpr); ok {
						t = st.X
					}
					if id, ok := t.(*ast.Ident); ok {
						recv = id.Name
					}
				}
				if recv != p.recv {
					continue
				}
				e, err := parser.ParseExpr(p.call)
				if err != nil {
					die("probe: bad call %q: %v", p.call, err)
				}
				fd.Body.List = append([]ast.Stmt{&ast.ExprStmt{X: e}}, fd.Body.List...)
				found = true
				cnt.probes++
			}
			if !found {
				die("probe anchor not found: %s (%s).%s", rel, p.recv, p.fn)
			}
		}
		astutil.AddNamedImport(fset, f, "zzsimrt", zz+"simrt")
		writeFile(fset, f, path)
	}
}
