// simgen instruments a scratch copy of hydraide/hydraide for deterministic
// simulation. It never touches /repo: it is pointed at a copy.
//
//	simgen -root <scratch copy> -zzsim <dir with shim packages>
//
// What it does (see DESIGN.md §2):
//   - copies the shim packages to <root>/app/zzsim and generates forwarders so
//     that sos/ssync/satomic/sfilepath export the complete API of os/sync/
//     sync/atomic/path/filepath;
//   - in every non-test file of the packages in scope: redirects the imports
//     of sync, sync/atomic, os, path/filepath to the shims, rewrites `go`
//     statements to simrt.Go, rewrites `range` over maps to a PRNG-permuted
//     key order, and makes ties in multi-case `select`s a scheduled choice;
//   - inserts the probes and exports the harness needs.
//
// Exit status 2 on any trouble (never a verdict about a property).
package main

import (
	"bytes"
	"flag"
	"go/printer"
	"reflect"
	"fmt"
	"go/ast"
	"go/format"
	"go/parser"
	"go/token"
	"go/types"
	"os"
	"path/filepath"
	"sort"
	"strings"

	"golang.org/x/tools/go/ast/astutil"
	"golang.org/x/tools/go/packages"
)

const modPath = "github.com/hydraide/hydraide"
const zz = modPath + "/app/zzsim/"

var scope = []string{
	"./app/core/...",
	"./app/name/...",
	"./app/panichandler/...",
	"./app/server/gateway/...",
	"./app/server/explorer/...",
}

// redirect maps a real import path to (shim path, default local name).
var redirect = map[string][2]string{
	"sync":          {zz + "ssync", "sync"},
	"sync/atomic":   {zz + "satomic", "atomic"},
	"os":            {zz + "sos", "os"},
	"path/filepath": {zz + "sfilepath", "filepath"},
}

type counters struct {
	files, imports, gos, ranges, rangesSkipped, selects, selectsSkipped, probes int
	keyTypes                                                                   map[string]int
}

var cnt = counters{keyTypes: map[string]int{}}

func die(f string, a ...any) {
	fmt.Fprintf(os.Stderr, "simgen: "+f+"\n", a...)
	os.Exit(2)
}

func main() {
	root := flag.String("root", "", "scratch copy of the repository")
	zzsrc := flag.String("zzsim", "", "directory holding the shim packages")
	extra := flag.String("extra", "", "comma separated extra files (relative to root) to redirect imports in")
	flag.Parse()
	if *root == "" || *zzsrc == "" {
		die("usage: simgen -root DIR -zzsim DIR")
	}
	dst := filepath.Join(*root, "app", "zzsim")
	if err := copyTree(*zzsrc, dst); err != nil {
		die("copy shims: %v", err)
	}
	genForwarders(*root, dst)

	cfg := &packages.Config{
		Mode: packages.NeedName | packages.NeedFiles | packages.NeedSyntax | packages.NeedTypes | packages.NeedTypesInfo | packages.NeedCompiledGoFiles | packages.NeedImports,
		Dir:  *root,
		Env:  append(os.Environ(), "GOWORK=off", "GOFLAGS=-mod=mod"),
	}
	pkgs, err := packages.Load(cfg, scope...)
	if err != nil {
		die("load: %v", err)
	}
	bad := false
	for _, p := range pkgs {
		for _, e := range p.Errors {
			fmt.Fprintf(os.Stderr, "simgen: %s: %v\n", p.PkgPath, e)
			bad = true
		}
	}
	if bad {
		die("scope does not type-check")
	}
	for _, p := range pkgs {
		if strings.Contains(p.PkgPath, "/zzsim/") {
			continue
		}
		for i, f := range p.Syntax {
			name := p.CompiledGoFiles[i]
			if strings.HasSuffix(name, "_test.go") {
				continue
			}
			rewriteFile(p, f, name)
		}
	}
	// SDK packages that checks drive as client code (separate module of the workspace): seeded map order only
	sdkRoot := filepath.Join(*root, "sdk", "go", "hydraidego")
	if _, err := os.Stat(filepath.Join(sdkRoot, "go.mod")); err == nil {
		scfg := &packages.Config{Mode: cfg.Mode, Dir: sdkRoot, Env: append(os.Environ(), "GOWORK=off", "GOFLAGS=-mod=mod")}
		spkgs, err := packages.Load(scfg, ".", "./hydrex")
		if err != nil {
			die("load sdk: %v", err)
		}
		onlyRanges = true
		for _, p := range spkgs {
			for _, e := range p.Errors {
				die("sdk scope does not type-check: %s: %v", p.PkgPath, e)
			}
			for i, f := range p.Syntax {
				name := p.CompiledGoFiles[i]
				if strings.HasSuffix(name, "_test.go") {
					continue
				}
				rewriteFile(p, f, name)
			}
		}
		onlyRanges = false
	}
	for _, rel := range strings.Split(*extra, ",") {
		if rel == "" {
			continue
		}
		redirectOnly(filepath.Join(*root, rel))
	}
	applyProbes(*root)
	kt := []string{}
	for k, v := range cnt.keyTypes {
		kt = append(kt, fmt.Sprintf("%s:%d", k, v))
	}
	sort.Strings(kt)
	fmt.Printf("simgen: files=%d imports=%d go=%d range_map=%d range_skipped=%d select=%d select_skipped=%d probes=%d keytypes=%v\n",
		cnt.files, cnt.imports, cnt.gos, cnt.ranges, cnt.rangesSkipped, cnt.selects, cnt.selectsSkipped, cnt.probes, kt)
}

func copyTree(src, dst string) error {
	return filepath.Walk(src, func(p string, info os.FileInfo, err error) error {
		if err != nil {
			return err
		}
		rel, _ := filepath.Rel(src, p)
		t := filepath.Join(dst, rel)
		if info.IsDir() {
			return os.MkdirAll(t, 0o755)
		}
		b, err := os.ReadFile(p)
		if err != nil {
			return err
		}
		return os.WriteFile(t, b, 0o644)
	})
}

// ---------------------------------------------------------------------------
// forwarders

func genForwarders(root, dst string) {
	type spec struct{ real, dir, pkgname string }
	specs := []spec{
		{"os", "sos", "sos"},
		{"sync", "ssync", "ssync"},
		{"sync/atomic", "satomic", "satomic"},
		{"path/filepath", "sfilepath", "sfilepath"},
	}
	cfg := &packages.Config{Mode: packages.NeedName | packages.NeedTypes, Dir: root,
		Env: append(os.Environ(), "GOWORK=off", "GOFLAGS=-mod=mod")}
	var paths []string
	for _, s := range specs {
		paths = append(paths, s.real)
	}
	pkgs, err := packages.Load(cfg, paths...)
	if err != nil {
		die("load std: %v", err)
	}
	byPath := map[string]*packages.Package{}
	for _, p := range pkgs {
		byPath[p.PkgPath] = p
	}
	for _, s := range specs {
		p := byPath[s.real]
		if p == nil || p.Types == nil {
			die("no types for %s", s.real)
		}
		defined := definedNames(filepath.Join(dst, s.dir))
		intercepted := map[string]bool{}
		for n := range defined {
			if tn, ok := p.Types.Scope().Lookup(n).(*types.TypeName); ok {
				_ = tn
				intercepted[n] = true
			}
		}
		var buf bytes.Buffer
		imports := map[string]string{}
		qual := func(q *types.Package) string {
			if q.Path() == s.real {
				return "real"
			}
			imports[q.Path()] = q.Name()
			return q.Name()
		}
		var body bytes.Buffer
		names := p.Types.Scope().Names()
		sort.Strings(names)
		for _, n := range names {
			if !token.IsExported(n) || defined[n] {
				continue
			}
			obj := p.Types.Scope().Lookup(n)
			switch o := obj.(type) {
			case *types.Const:
				fmt.Fprintf(&body, "const %s = real.%s\n", n, n)
			case *types.Var:
				fmt.Fprintf(&body, "var %s = real.%s\n", n, n)
			case *types.TypeName:
				if named, ok := o.Type().(*types.Named); ok && named.TypeParams().Len() > 0 {
					continue
				}
				if _, ok := o.Type().(*types.Alias); ok {
					if a := o.Type().(*types.Alias); a.TypeParams().Len() > 0 {
						continue
					}
				}
				fmt.Fprintf(&body, "type %s = real.%s\n", n, n)
			case *types.Func:
				sig := o.Type().(*types.Signature)
				if sig.TypeParams().Len() > 0 {
					continue
				}
				if mentions(sig, p.Types, intercepted) {
					continue
				}
				var params, args []string
				for i := 0; i < sig.Params().Len(); i++ {
					v := sig.Params().At(i)
					ts := types.TypeString(v.Type(), qual)
					an := fmt.Sprintf("a%d", i)
					if sig.Variadic() && i == sig.Params().Len()-1 {
						ts = "..." + types.TypeString(v.Type().(*types.Slice).Elem(), qual)
						args = append(args, an+"...")
					} else {
						args = append(args, an)
					}
					params = append(params, an+" "+ts)
				}
				var rets []string
				for i := 0; i < sig.Results().Len(); i++ {
					rets = append(rets, types.TypeString(sig.Results().At(i).Type(), qual))
				}
				ret := ""
				if len(rets) > 0 {
					ret = "(" + strings.Join(rets, ", ") + ")"
				}
				call := fmt.Sprintf("real.%s(%s)", n, strings.Join(args, ", "))
				if len(rets) > 0 {
					call = "return " + call
				}
				fmt.Fprintf(&body, "func %s(%s) %s { %s }\n", n, strings.Join(params, ", "), ret, call)
			}
		}
		if body.Len() == 0 {
			continue
		}
		fmt.Fprintf(&buf, "// Code generated by simgen. DO NOT EDIT.\n\npackage %s\n\nimport (\n\treal %q\n", s.pkgname, s.real)
		ips := []string{}
		for ip := range imports {
			ips = append(ips, ip)
		}
		sort.Strings(ips)
		for _, ip := range ips {
			fmt.Fprintf(&buf, "\t%s %q\n", imports[ip], ip)
		}
		fmt.Fprintf(&buf, ")\n\n")
		buf.Write(body.Bytes())
		src, err := format.Source(buf.Bytes())
		if err != nil {
			os.WriteFile(filepath.Join(dst, s.dir, "zz_forward.go.bad"), buf.Bytes(), 0o644)
			die("format forwarders for %s: %v", s.real, err)
		}
		if err := os.WriteFile(filepath.Join(dst, s.dir, "zz_forward.go"), src, 0o644); err != nil {
			die("%v", err)
		}
	}
}

func mentions(t types.Type, pkg *types.Package, names map[string]bool) bool {
	found := false
	var visit func(t types.Type, depth int)
	visit = func(t types.Type, depth int) {
		if found || depth > 6 {
			return
		}
		switch x := t.(type) {
		case *types.Named:
			if x.Obj().Pkg() == pkg && names[x.Obj().Name()] {
				found = true
			}
		case *types.Alias:
			if x.Obj().Pkg() == pkg && names[x.Obj().Name()] {
				found = true
			}
		case *types.Pointer:
			visit(x.Elem(), depth+1)
		case *types.Slice:
			visit(x.Elem(), depth+1)
		case *types.Array:
			visit(x.Elem(), depth+1)
		case *types.Map:
			visit(x.Key(), depth+1)
			visit(x.Elem(), depth+1)
		case *types.Chan:
			visit(x.Elem(), depth+1)
		case *types.Signature:
			for i := 0; i < x.Params().Len(); i++ {
				visit(x.Params().At(i).Type(), depth+1)
			}
			for i := 0; i < x.Results().Len(); i++ {
				visit(x.Results().At(i).Type(), depth+1)
			}
		}
	}
	visit(t, 0)
	return found
}

func definedNames(dir string) map[string]bool {
	out := map[string]bool{}
	fset := token.NewFileSet()
	ents, err := os.ReadDir(dir)
	if err != nil {
		die("%v", err)
	}
	for _, e := range ents {
		if !strings.HasSuffix(e.Name(), ".go") || e.Name() == "zz_forward.go" {
			continue
		}
		f, err := parser.ParseFile(fset, filepath.Join(dir, e.Name()), nil, 0)
		if err != nil {
			die("parse shim: %v", err)
		}
		for _, d := range f.Decls {
			switch x := d.(type) {
			case *ast.FuncDecl:
				if x.Recv == nil {
					out[x.Name.Name] = true
				}
			case *ast.GenDecl:
				for _, sp := range x.Specs {
					switch y := sp.(type) {
					case *ast.TypeSpec:
						out[y.Name.Name] = true
					case *ast.ValueSpec:
						for _, n := range y.Names {
							out[n.Name] = true
						}
					}
				}
			}
		}
	}
	return out
}

// ---------------------------------------------------------------------------
// file rewriting

func redirectImports(f *ast.File) (changed bool) {
	for _, im := range f.Imports {
		p := strings.Trim(im.Path.Value, "`\"")
		r, ok := redirect[p]
		if !ok {
			continue
		}
		im.Path.Value = fmt.Sprintf("%q", r[0])
		if im.Name == nil {
			im.Name = ast.NewIdent(r[1])
		}
		cnt.imports++
		changed = true
	}
	return
}

func redirectOnly(path string) {
	fset := token.NewFileSet()
	f, err := parser.ParseFile(fset, path, nil, parser.ParseComments)
	if err != nil {
		die("parse %s: %v", path, err)
	}
	if redirectImports(f) {
		writeFile(fset, f, path)
	}
}

func writeFile(fset *token.FileSet, f *ast.File, path string) {
	var buf bytes.Buffer
	if err := format.Node(&buf, fset, f); err != nil {
		die("print %s: %v", path, err)
	}
	if err := os.WriteFile(path, buf.Bytes(), 0o644); err != nil {
		die("%v", err)
	}
	cnt.files++
}

func isPure(e ast.Expr) bool {
	switch x := e.(type) {
	case *ast.Ident:
		return true
	case *ast.SelectorExpr:
		return isPure(x.X)
	case *ast.ParenExpr:
		return isPure(x.X)
	case *ast.StarExpr:
		return isPure(x.X)
	case *ast.IndexExpr:
		return isPure(x.X) && isPure(x.Index)
	case *ast.BasicLit:
		return true
	}
	return false
}

// onlyRanges restricts rewriteFile to the range-over-map rewrite (used for the SDK packages a check drives:
// they run as client code, but their map iteration order decides the order of requests and must be seeded too).
var onlyRanges bool

func rewriteFile(p *packages.Package, f *ast.File, path string) {
	changed := false
	if !onlyRanges {
		changed = redirectImports(f)
	}
	needSimrt := false
	id := func(s string) *ast.Ident { return ast.NewIdent(s) }
	simrtSel := func(name string) ast.Expr {
		needSimrt = true
		return &ast.SelectorExpr{X: id("zzsimrt"), Sel: id(name)}
	}
	ctr := 0
	astutil.Apply(f, nil, func(c *astutil.Cursor) bool {
		switch n := c.Node().(type) {
		case *ast.GoStmt:
			if onlyRanges {
				return true
			}
			call := n.Call
			var arg ast.Expr
			if len(call.Args) == 0 {
				arg = call.Fun
				c.Replace(&ast.ExprStmt{X: &ast.CallExpr{Fun: simrtSel("Go"), Args: []ast.Expr{arg}}})
			} else {
				// { f := Fun; a0 := arg0; ...; simrt.Go(func(){ f(a0,...) }) }
				ctr++
				var stmts []ast.Stmt
				fn := call.Fun
				if _, isLit := fn.(*ast.FuncLit); isLit || !isPure(fn) {
					fv := id(fmt.Sprintf("zzf%d", ctr))
					stmts = append(stmts, &ast.AssignStmt{Lhs: []ast.Expr{fv}, Tok: token.DEFINE, Rhs: []ast.Expr{fn}})
					fn = fv
				} else if sel, ok := fn.(*ast.SelectorExpr); ok {
					if _, isPkg := p.TypesInfo.Uses[rootIdent(sel)].(*types.PkgName); !isPkg {
						fv := id(fmt.Sprintf("zzf%d", ctr))
						stmts = append(stmts, &ast.AssignStmt{Lhs: []ast.Expr{fv}, Tok: token.DEFINE, Rhs: []ast.Expr{fn}})
						fn = fv
					}
				}
				var args []ast.Expr
				sig, _ := p.TypesInfo.TypeOf(call.Fun).(*types.Signature)
				for i, a := range call.Args {
					av := id(fmt.Sprintf("zza%d_%d", ctr, i))
					var decl ast.Stmt = &ast.AssignStmt{Lhs: []ast.Expr{av}, Tok: token.DEFINE, Rhs: []ast.Expr{a}}
					if sig != nil {
						var pt types.Type
						if sig.Variadic() && i >= sig.Params().Len()-1 {
							pt = sig.Params().At(sig.Params().Len() - 1).Type()
							if !call.Ellipsis.IsValid() {
								pt = pt.(*types.Slice).Elem()
							}
						} else if i < sig.Params().Len() {
							pt = sig.Params().At(i).Type()
						}
						if pt != nil {
							ts := types.TypeString(pt, func(q *types.Package) string {
								if q == p.Types {
									return ""
								}
								return q.Name()
							})
							te, err := parser.ParseExpr(ts)
							if err == nil {
								decl = &ast.DeclStmt{Decl: &ast.GenDecl{Tok: token.VAR, Specs: []ast.Spec{
									&ast.ValueSpec{Names: []*ast.Ident{av}, Type: te, Values: []ast.Expr{a}}}}}
							}
						}
					}
					stmts = append(stmts, decl)
					args = append(args, av)
				}
				inner := &ast.CallExpr{Fun: fn, Args: args, Ellipsis: call.Ellipsis}
				if !call.Ellipsis.IsValid() {
					inner.Ellipsis = token.NoPos
				}
				lit := &ast.FuncLit{Type: &ast.FuncType{Params: &ast.FieldList{}}, Body: &ast.BlockStmt{List: []ast.Stmt{&ast.ExprStmt{X: inner}}}}
				stmts = append(stmts, &ast.ExprStmt{X: &ast.CallExpr{Fun: simrtSel("Go"), Args: []ast.Expr{lit}}})
				c.Replace(&ast.BlockStmt{List: stmts})
			}
			cnt.gos++
			changed = true
		case *ast.SelectStmt:
			if onlyRanges {
				return true
			}
			if repl := rewriteSelect(p.Fset, n, c.Parent()); repl != nil {
				needSimrt = true
				// comments that sat inside the original statement have no home in the
				// replacement (its nodes carry no positions): drop them
				var keep []*ast.CommentGroup
				for _, cg := range f.Comments {
					if cg.Pos() >= n.Pos() && cg.End() <= n.End() {
						continue
					}
					keep = append(keep, cg)
				}
				f.Comments = keep
				c.Replace(repl)
				changed = true
			}
		case *ast.RangeStmt:
			t := p.TypesInfo.TypeOf(n.X)
			if t == nil {
				return true
			}
			mt, ok := t.Underlying().(*types.Map)
			if !ok {
				return true
			}
			if !isPure(n.X) {
				cnt.rangesSkipped++
				fmt.Fprintf(os.Stderr, "simgen: note: range over non-pure map expression left as is at %s\n", p.Fset.Position(n.Pos()))
				return true
			}
			cnt.keyTypes[mt.Key().String()]++
			ctr++
			kv := id(fmt.Sprintf("zzk%d", ctr))
			okv := id(fmt.Sprintf("zzok%d", ctr))
			var pro []ast.Stmt
			keyUsed := n.Key != nil && !isBlank(n.Key)
			valUsed := n.Value != nil && !isBlank(n.Value)
			if keyUsed {
				pro = append(pro, &ast.AssignStmt{Lhs: []ast.Expr{n.Key}, Tok: n.Tok, Rhs: []ast.Expr{kv}})
			}
			idx := &ast.IndexExpr{X: n.X, Index: kv}
			if valUsed {
				if n.Tok == token.DEFINE {
					pro = append(pro, &ast.AssignStmt{Lhs: []ast.Expr{n.Value, okv}, Tok: token.DEFINE, Rhs: []ast.Expr{idx}})
				} else {
					pro = append(pro, &ast.DeclStmt{Decl: &ast.GenDecl{Tok: token.VAR, Specs: []ast.Spec{
						&ast.ValueSpec{Names: []*ast.Ident{okv}, Type: id("bool")}}}})
					pro = append(pro, &ast.AssignStmt{Lhs: []ast.Expr{n.Value, okv}, Tok: token.ASSIGN, Rhs: []ast.Expr{idx}})
				}
			} else {
				pro = append(pro, &ast.AssignStmt{Lhs: []ast.Expr{id("_"), okv}, Tok: token.DEFINE, Rhs: []ast.Expr{idx}})
			}
			pro = append(pro, &ast.IfStmt{Cond: &ast.UnaryExpr{Op: token.NOT, X: okv},
				Body: &ast.BlockStmt{List: []ast.Stmt{&ast.BranchStmt{Tok: token.CONTINUE}}}})
			if keyUsed && n.Tok == token.DEFINE {
				// keep "declared and not used" away when the body never reads the key
				pro = append(pro, &ast.AssignStmt{Lhs: []ast.Expr{id("_")}, Tok: token.ASSIGN, Rhs: []ast.Expr{n.Key}})
			}
			if valUsed && n.Tok == token.DEFINE {
				pro = append(pro, &ast.AssignStmt{Lhs: []ast.Expr{id("_")}, Tok: token.ASSIGN, Rhs: []ast.Expr{n.Value}})
			}
			n.Body.List = append(pro, n.Body.List...)
			n.Key = id("_")
			n.Value = kv
			n.Tok = token.DEFINE
			n.X = &ast.CallExpr{Fun: simrtSel("MapKeys"), Args: []ast.Expr{n.X}}
			cnt.ranges++
			changed = true
		}
		return true
	})
	if needSimrt {
		astutil.AddNamedImport(p.Fset, f, "zzsimrt", zz+"simrt")
	}
	if changed {
		writeFile(p.Fset, f, path)
	}
}

func isBlank(e ast.Expr) bool {
	i, ok := e.(*ast.Ident)
	return ok && i.Name == "_"
}

func rootIdent(e ast.Expr) *ast.Ident {
	for {
		switch x := e.(type) {
		case *ast.Ident:
			return x
		case *ast.SelectorExpr:
			e = x.X
		default:
			return nil
		}
	}
}

// rewriteSelect makes the choice among several ready cases of a blocking
// select a scheduled decision: the cases are first polled (non-blocking) in an
// order drawn from the run's PRNG, and only if none is ready the original
// blocking select runs. Bodies are duplicated mechanically.
func rewriteSelect(fset *token.FileSet, sel *ast.SelectStmt, parent ast.Node) ast.Stmt {
	var clauses []*ast.CommClause
	for _, st := range sel.Body.List {
		cc := st.(*ast.CommClause)
		if cc.Comm == nil {
			return nil // has a default clause: never blocks, never random among ready cases... but may be random
		}
		clauses = append(clauses, cc)
	}
	if len(clauses) < 2 {
		return nil
	}
	if _, labeled := parent.(*ast.LabeledStmt); labeled || len(clauses) > 3 {
		cnt.selectsSkipped++
		return nil
	}
	text := func(n any) string {
		var b bytes.Buffer
		if err := printer.Fprint(&b, fset, n); err != nil {
			die("print select: %v", err)
		}
		return b.String()
	}
	clauseText := make([]string, len(clauses))
	for i, cc := range clauses {
		var b bytes.Buffer
		b.WriteString("case " + text(cc.Comm) + ":\n")
		for _, st := range cc.Body {
			b.WriteString(text(st) + "\n")
		}
		clauseText[i] = b.String()
	}
	orig := "select {\n" + strings.Join(clauseText, "") + "}\n"
	var perms [][]int
	switch len(clauses) {
	case 2:
		perms = [][]int{{0, 1}, {1, 0}}
	case 3:
		perms = [][]int{{0, 1, 2}, {0, 2, 1}, {1, 0, 2}, {1, 2, 0}, {2, 0, 1}, {2, 1, 0}}
	}
	var poll func(order []int) string
	poll = func(order []int) string {
		if len(order) == 0 {
			return orig
		}
		return "select {\n" + clauseText[order[0]] + "default:\n" + poll(order[1:]) + "}\n"
	}
	var b bytes.Buffer
	fmt.Fprintf(&b, "package p\nfunc _() {\nswitch zzsimrt.SelectOrder(%d) {\n", len(perms))
	for i, pm := range perms {
		if i == len(perms)-1 {
			b.WriteString("default:\n")
		} else {
			fmt.Fprintf(&b, "case %d:\n", i)
		}
		b.WriteString(poll(pm))
	}
	b.WriteString("}\n}\n")
	nf, err := parser.ParseFile(token.NewFileSet(), "sel.go", b.Bytes(), 0)
	if err != nil {
		die("select rewrite does not parse: %v\n%s", err, b.String())
	}
	st := nf.Decls[0].(*ast.FuncDecl).Body.List[0]
	clearPos(st)
	cnt.selects++
	return st
}

var posType = reflect.TypeOf(token.NoPos)

// clearPos zeroes every token.Pos in the subtree so that nodes parsed in a
// foreign file set do not confuse the printer.
func clearPos(n ast.Node) {
	ast.Inspect(n, func(x ast.Node) bool {
		if x == nil {
			return false
		}
		v := reflect.ValueOf(x)
		if v.Kind() == reflect.Pointer {
			v = v.Elem()
		}
		if v.Kind() != reflect.Struct {
			return true
		}
		for i := 0; i < v.NumField(); i++ {
			f := v.Field(i)
			if f.Type() == posType && f.CanSet() {
				f.SetInt(0)
			}
		}
		return true
	})
}
