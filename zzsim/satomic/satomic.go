// Package satomic is the simulated drop-in for sync/atomic: every operation is
// a scheduling point followed by the real atomic operation. The race detector
// sees the real operation, so atomics keep their happens-before meaning.
package satomic

import (
	"sync/atomic"
	"unsafe"

	"github.com/hydraide/hydraide/app/zzsim/simrt"
)

func y() { simrt.AtomicYield() }

func AddInt32(addr *int32, delta int32) int32             { y(); return atomic.AddInt32(addr, delta) }
func AddInt64(addr *int64, delta int64) int64             { y(); return atomic.AddInt64(addr, delta) }
func AddUint32(addr *uint32, delta uint32) uint32         { y(); return atomic.AddUint32(addr, delta) }
func AddUint64(addr *uint64, delta uint64) uint64         { y(); return atomic.AddUint64(addr, delta) }
func AddUintptr(addr *uintptr, d uintptr) uintptr         { y(); return atomic.AddUintptr(addr, d) }
func LoadInt32(addr *int32) int32                         { y(); return atomic.LoadInt32(addr) }
func LoadInt64(addr *int64) int64                         { y(); return atomic.LoadInt64(addr) }
func LoadUint32(addr *uint32) uint32                      { y(); return atomic.LoadUint32(addr) }
func LoadUint64(addr *uint64) uint64                      { y(); return atomic.LoadUint64(addr) }
func LoadUintptr(addr *uintptr) uintptr                   { y(); return atomic.LoadUintptr(addr) }
func LoadPointer(addr *unsafe.Pointer) unsafe.Pointer     { y(); return atomic.LoadPointer(addr) }
func StoreInt32(addr *int32, v int32)                     { y(); atomic.StoreInt32(addr, v) }
func StoreInt64(addr *int64, v int64)                     { y(); atomic.StoreInt64(addr, v) }
func StoreUint32(addr *uint32, v uint32)                  { y(); atomic.StoreUint32(addr, v) }
func StoreUint64(addr *uint64, v uint64)                  { y(); atomic.StoreUint64(addr, v) }
func StoreUintptr(addr *uintptr, v uintptr)               { y(); atomic.StoreUintptr(addr, v) }
func StorePointer(addr *unsafe.Pointer, v unsafe.Pointer) { y(); atomic.StorePointer(addr, v) }
func SwapInt32(addr *int32, v int32) int32                { y(); return atomic.SwapInt32(addr, v) }
func SwapInt64(addr *int64, v int64) int64                { y(); return atomic.SwapInt64(addr, v) }
func SwapUint32(addr *uint32, v uint32) uint32            { y(); return atomic.SwapUint32(addr, v) }
func SwapUint64(addr *uint64, v uint64) uint64            { y(); return atomic.SwapUint64(addr, v) }
func SwapUintptr(addr *uintptr, v uintptr) uintptr        { y(); return atomic.SwapUintptr(addr, v) }
func SwapPointer(addr *unsafe.Pointer, v unsafe.Pointer) unsafe.Pointer {
	y()
	return atomic.SwapPointer(addr, v)
}
func CompareAndSwapInt32(addr *int32, old, new int32) bool {
	y()
	return atomic.CompareAndSwapInt32(addr, old, new)
}
func CompareAndSwapInt64(addr *int64, old, new int64) bool {
	y()
	return atomic.CompareAndSwapInt64(addr, old, new)
}
func CompareAndSwapUint32(addr *uint32, old, new uint32) bool {
	y()
	return atomic.CompareAndSwapUint32(addr, old, new)
}
func CompareAndSwapUint64(addr *uint64, old, new uint64) bool {
	y()
	return atomic.CompareAndSwapUint64(addr, old, new)
}
func CompareAndSwapUintptr(addr *uintptr, old, new uintptr) bool {
	y()
	return atomic.CompareAndSwapUintptr(addr, old, new)
}
func CompareAndSwapPointer(addr *unsafe.Pointer, old, new unsafe.Pointer) bool {
	y()
	return atomic.CompareAndSwapPointer(addr, old, new)
}
func AndInt32(addr *int32, mask int32) int32     { y(); return atomic.AndInt32(addr, mask) }
func AndInt64(addr *int64, mask int64) int64     { y(); return atomic.AndInt64(addr, mask) }
func AndUint32(addr *uint32, mask uint32) uint32 { y(); return atomic.AndUint32(addr, mask) }
func AndUint64(addr *uint64, mask uint64) uint64 { y(); return atomic.AndUint64(addr, mask) }
func OrInt32(addr *int32, mask int32) int32      { y(); return atomic.OrInt32(addr, mask) }
func OrInt64(addr *int64, mask int64) int64      { y(); return atomic.OrInt64(addr, mask) }
func OrUint32(addr *uint32, mask uint32) uint32  { y(); return atomic.OrUint32(addr, mask) }
func OrUint64(addr *uint64, mask uint64) uint64  { y(); return atomic.OrUint64(addr, mask) }

type Int32 struct{ v atomic.Int32 }

func (x *Int32) Load() int32                        { y(); return x.v.Load() }
func (x *Int32) Store(v int32)                      { y(); x.v.Store(v) }
func (x *Int32) Swap(v int32) int32                 { y(); return x.v.Swap(v) }
func (x *Int32) CompareAndSwap(old, new int32) bool { y(); return x.v.CompareAndSwap(old, new) }
func (x *Int32) Add(d int32) int32                  { y(); return x.v.Add(d) }
func (x *Int32) And(m int32) int32                  { y(); return x.v.And(m) }
func (x *Int32) Or(m int32) int32                   { y(); return x.v.Or(m) }

type Int64 struct{ v atomic.Int64 }

func (x *Int64) Load() int64                        { y(); return x.v.Load() }
func (x *Int64) Store(v int64)                      { y(); x.v.Store(v) }
func (x *Int64) Swap(v int64) int64                 { y(); return x.v.Swap(v) }
func (x *Int64) CompareAndSwap(old, new int64) bool { y(); return x.v.CompareAndSwap(old, new) }
func (x *Int64) Add(d int64) int64                  { y(); return x.v.Add(d) }
func (x *Int64) And(m int64) int64                  { y(); return x.v.And(m) }
func (x *Int64) Or(m int64) int64                   { y(); return x.v.Or(m) }

type Uint32 struct{ v atomic.Uint32 }

func (x *Uint32) Load() uint32                        { y(); return x.v.Load() }
func (x *Uint32) Store(v uint32)                      { y(); x.v.Store(v) }
func (x *Uint32) Swap(v uint32) uint32                { y(); return x.v.Swap(v) }
func (x *Uint32) CompareAndSwap(old, new uint32) bool { y(); return x.v.CompareAndSwap(old, new) }
func (x *Uint32) Add(d uint32) uint32                 { y(); return x.v.Add(d) }
func (x *Uint32) And(m uint32) uint32                 { y(); return x.v.And(m) }
func (x *Uint32) Or(m uint32) uint32                  { y(); return x.v.Or(m) }

type Uint64 struct{ v atomic.Uint64 }

func (x *Uint64) Load() uint64                        { y(); return x.v.Load() }
func (x *Uint64) Store(v uint64)                      { y(); x.v.Store(v) }
func (x *Uint64) Swap(v uint64) uint64                { y(); return x.v.Swap(v) }
func (x *Uint64) CompareAndSwap(old, new uint64) bool { y(); return x.v.CompareAndSwap(old, new) }
func (x *Uint64) Add(d uint64) uint64                 { y(); return x.v.Add(d) }
func (x *Uint64) And(m uint64) uint64                 { y(); return x.v.And(m) }
func (x *Uint64) Or(m uint64) uint64                  { y(); return x.v.Or(m) }

type Uintptr struct{ v atomic.Uintptr }

func (x *Uintptr) Load() uintptr                        { y(); return x.v.Load() }
func (x *Uintptr) Store(v uintptr)                      { y(); x.v.Store(v) }
func (x *Uintptr) Swap(v uintptr) uintptr               { y(); return x.v.Swap(v) }
func (x *Uintptr) CompareAndSwap(old, new uintptr) bool { y(); return x.v.CompareAndSwap(old, new) }
func (x *Uintptr) Add(d uintptr) uintptr                { y(); return x.v.Add(d) }

type Bool struct{ v atomic.Bool }

func (x *Bool) Load() bool                        { y(); return x.v.Load() }
func (x *Bool) Store(v bool)                      { y(); x.v.Store(v) }
func (x *Bool) Swap(v bool) bool                  { y(); return x.v.Swap(v) }
func (x *Bool) CompareAndSwap(old, new bool) bool { y(); return x.v.CompareAndSwap(old, new) }

type Value struct{ v atomic.Value }

func (x *Value) Load() any                        { y(); return x.v.Load() }
func (x *Value) Store(v any)                      { y(); x.v.Store(v) }
func (x *Value) Swap(v any) any                   { y(); return x.v.Swap(v) }
func (x *Value) CompareAndSwap(old, new any) bool { y(); return x.v.CompareAndSwap(old, new) }

type Pointer[T any] struct{ v atomic.Pointer[T] }

func (x *Pointer[T]) Load() *T                        { y(); return x.v.Load() }
func (x *Pointer[T]) Store(v *T)                      { y(); x.v.Store(v) }
func (x *Pointer[T]) Swap(v *T) *T                    { y(); return x.v.Swap(v) }
func (x *Pointer[T]) CompareAndSwap(old, new *T) bool { y(); return x.v.CompareAndSwap(old, new) }
