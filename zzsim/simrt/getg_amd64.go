//go:build amd64

package simrt

func getg() uintptr

// goid returns a key that identifies the calling goroutine for as long as it lives.
func goid() uint64 { return uint64(getg()) }
