package simrt

import (
	"fmt"
	"sort"
	"sync/atomic"
)

var passSeed atomic.Uint64
var passCtr atomic.Uint64

// SetPassSeed seeds map-order permutation outside simulated runs (storage
// level checks that do not need the scheduler).
func SetPassSeed(s uint64) { passSeed.Store(s); passCtr.Store(0) }

// mapRotate >= 0 replaces the seeded permutation by "sorted order rotated by n": a caller that needs every
// possible outcome of an order-dependent loop (last one wins) enumerates n = 0..len-1 instead of sampling.
var mapRotate atomic.Int64

func init() { mapRotate.Store(-1) }

// SetMapRotate switches MapKeys to the rotated order (n >= 0) or back to the seeded permutation (n < 0).
func SetMapRotate(n int64) { mapRotate.Store(n) }

// MapKeysUnsortable counts key sets that could only be ordered by their
// printed form (pointer keys would make replay diverge).
var MapKeysUnsortable atomic.Int64

func lessAny(a, b any) bool {
	switch x := a.(type) {
	case string:
		return x < b.(string)
	case int:
		return x < b.(int)
	case int8:
		return x < b.(int8)
	case int16:
		return x < b.(int16)
	case int32:
		return x < b.(int32)
	case int64:
		return x < b.(int64)
	case uint:
		return x < b.(uint)
	case uint8:
		return x < b.(uint8)
	case uint16:
		return x < b.(uint16)
	case uint32:
		return x < b.(uint32)
	case uint64:
		return x < b.(uint64)
	case uintptr:
		return x < b.(uintptr)
	case float32:
		return x < b.(float32)
	case float64:
		return x < b.(float64)
	case bool:
		return !x && b.(bool)
	}
	return fmt.Sprintf("%#v", a) < fmt.Sprintf("%#v", b)
}

func sortable(a any) bool {
	switch a.(type) {
	case string, int, int8, int16, int32, int64, uint, uint8, uint16, uint32, uint64, uintptr, float32, float64, bool:
		return true
	}
	return false
}

// MapKeys returns the keys of m in an order that is a pure function of the
// run seed: sorted, then permuted by the run's PRNG. Instrumented code ranges
// over this instead of over the map, which turns Go's hidden iteration-order
// randomness into a scheduled choice.
func MapKeys[M ~map[K]V, K comparable, V any](m M) []K {
	if len(m) == 0 {
		return nil
	}
	keys := make([]K, 0, len(m))
	for k := range m {
		keys = append(keys, k)
	}
	if len(keys) == 1 {
		return keys
	}
	if !sortable(any(keys[0])) {
		MapKeysUnsortable.Add(1)
	}
	sort.Slice(keys, func(i, j int) bool { return lessAny(any(keys[i]), any(keys[j])) })
	if rot := mapRotate.Load(); rot >= 0 {
		n := int(rot % int64(len(keys)))
		out := make([]K, 0, len(keys))
		out = append(out, keys[n:]...)
		out = append(out, keys[:n]...)
		return out
	}
	var r uint64
	if Mode() == 1 {
		r = Rand(uint64(len(keys)))
	} else {
		r = Mix(passSeed.Load(), passCtr.Add(1))
	}
	for i := len(keys) - 1; i > 0; i-- {
		r = r*6364136223846793005 + 1442695040888963407
		j := int((r >> 33) % uint64(i+1))
		keys[i], keys[j] = keys[j], keys[i]
	}
	return keys
}
