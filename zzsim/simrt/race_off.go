//go:build !race

package simrt

func raceDisable()                   {}
func raceEnable()                    {}
func raceAcquire(p any)              {}
func raceRelease(p any)              {}
func raceReleaseMerge(p any)         {}
func raceReleaseG(r *rt, i int32)    {}
func raceAcquireG(r *rt, i int32)    {}
func raceReleaseDone(r *rt, i int32) {}
func raceAcquireDone(r *rt, i int32) {}

// RaceAcquire / RaceRelease are exported for the shims.
func RaceAcquire(p any)      {}
func RaceRelease(p any)      {}
func RaceReleaseMerge(p any) {}

const RaceEnabled = false
