// Package simrt is the deterministic scheduler of the hydraide simulation.
//
// It runs inside one testing/synctest bubble. Every goroutine of the system
// under test is "managed": at each yield point (shimmed sync/atomic/file op,
// goroutine start, harness event) it either continues inline (it holds the run
// token and the schedule says "no preemption here") or parks on a private
// channel. A single scheduler goroutine waits for quiescence (synctest.Wait),
// computes the set of parked goroutines whose wait condition holds, and
// resumes exactly one of them. Every decision is a pure function of
// (Config.Seed, step number) or of an explicit preemption list, so one Config
// is one execution.
//
// Rule for every shimmed operation: yield first (obtain the token, wait for the
// operation's enabling condition, possibly be preempted), then apply the
// operation's effect. Only the token holder ever mutates simulated state.
//
// The package is written as plain named functions over fixed arrays so that it
// can stay invisible to the race detector (see race_on.go).
package simrt

import (
	"fmt"
	"runtime"
	"sync"
	"sync/atomic"
	"testing/synctest"
	"time"
)

// MaxG is the maximum number of managed goroutines per run.
const MaxG = 512

// Wait kinds.
const (
	wNone  = iota // plain yield: always enabled
	wMutex        // enabled when !mu.held
	wRLock        // enabled when !rw.w && rw.pendW==0
	wWLock        // enabled when !rw.w && rw.r==0
	wCond         // enabled when g.ticket < cv.head
	wWG           // enabled when wg.n==0
	wOnce         // enabled when !once.running
	wJoin         // enabled when all gs in [joinLo,joinHi) done, or deadline passed
	wSleep        // enabled when deadline passed
)

// Site kinds (only used for fingerprints / statistics).
const (
	SiteOther = iota
	SiteMutexLock
	SiteMutexUnlock
	SiteRLock
	SiteRUnlock
	SiteCond
	SiteWG
	SiteOnce
	SiteAtomic
	SiteMap
	SiteFile
	SiteGo
	SiteEvent
	SiteExit
	SiteHot // an inserted scheduling point in front of an operation that closes a check-then-act window (guard acquisition)
	NSites
)

// Mu is the simulated state of a sync.Mutex.
type Mu struct {
	held  bool
	epoch uint32
}

// RW is the simulated state of a sync.RWMutex.
type RW struct {
	w     bool
	r     int32
	pendW int32
	epoch uint32
}

// Cv is the simulated state of a sync.Cond.
type Cv struct {
	head, tail uint32 // waiters hold tickets in [head,tail); ticket < head means signalled
	epoch      uint32
}

// Wg is the simulated state of a sync.WaitGroup.
type Wg struct {
	n     int64
	epoch uint32
}

// On is the simulated state of a sync.Once.
type On struct {
	done    bool
	running bool
	epoch   uint32
}

type gstate struct {
	id       int32
	goid     uint64
	parked   bool
	done     bool
	resume   chan struct{}
	wkind    int
	wmu      *Mu
	wrw      *RW
	wcv      *Cv
	wwg      *Wg
	won      *On
	ticket   uint32 // cond ticket
	pre      bool   // parked because it was preempted (scheduler prefers others)
	deadline int64  // unix nano, 0 = none
	joinLo   int32
	joinHi   int32
	site     int
	pendingW bool // counted in wrw.pendW
	// holdUntil: after a preemption the goroutine is not picked again before this step unless nothing else can
	// run - one long delay at one point, which is what lets another request's whole critical section fit into
	// a window of a few instructions
	holdUntil int64
}

// Config fixes one schedule.
type Config struct {
	Seed        uint64
	PreemptPPM  uint32  // probability (parts per million) of a preemption at a yield point
	StallPPM    uint32  // probability that the scheduler lets simulated time pass although a goroutine is enabled
	StallMaxMs  uint32  // upper bound of one stall
	HotPPM      uint32  // preemption probability at SiteHot points (0 = PreemptPPM)
	HoldMax     uint32  // if >0: a preempted goroutine is held back for 1..HoldMax scheduler steps (others run on meanwhile)
	Explicit    bool    // if true, preempt exactly at Steps (PreemptPPM ignored)
	Steps       []int64 // explicit preemption steps (sorted)
	MaxSteps    int64   // budget; 0 = default
	IdleLimitMs int64   // simulated ms without progress after which the run is declared stuck
}

// Stats describes what a run did.
type Stats struct {
	Steps        int64
	Preemptions  int64
	Switches     int64
	Stalls       int64
	Blocked      int64 // parks because a wait condition did not hold
	Goroutines   int32
	Adopted      int32
	Hash         uint64
	Stuck        bool
	OverBudget   bool
	SiteCount    [NSites]int64
	PreemptSteps []int64
	SimNanos     int64
}

type rt struct {
	mu        sync.Mutex // raw; never held across a park
	cfg       Config
	epoch     uint32
	gs        [MaxG]gstate
	ng        int32
	token     int32 // id of the goroutine allowed to continue inline, -1 none
	wake      chan struct{}
	stopCh    chan struct{}
	stopped   bool // no more scheduling: shim operations become no-ops
	aborted   bool // stopped by the scheduler (stuck / over budget)
	poison    bool // parked goroutines unwind with Goexit when released
	step      int64
	stats     Stats
	explicit  int // cursor into cfg.Steps
	start     int64
	tab       [2048]tabEnt
	schedDone chan struct{}
	evseq     int64
	presteps  [4096]int64
	npre      int
	escaped   string
}

type tabEnt struct {
	goid uint64
	idx  int32
	used bool
}

var warmOnce sync.Once

var (
	cur      atomic.Pointer[rt]
	epochCtr atomic.Uint32
	simProc  atomic.Bool
)

// SetSimProcess declares that this process only ever runs shimmed code inside
// simulated runs: outside an active run every shim operation is a no-op
// instead of falling back to the real primitive. (Goroutines of a finished run
// that are unwinding must never touch a real primitive they did not acquire.)
//
//go:norace
func SetSimProcess(v bool) { simProc.Store(v) }

// Mode tells a shim what to do: 0 = use the real primitive, 1 = simulated,
// 2 = no-op (run over / outside run in a sim process).
//
//go:norace
func Mode() int {
	r := cur.Load()
	if r == nil {
		if simProc.Load() {
			return 2
		}
		return 0
	}
	if r.stopped {
		if r.poison {
			// the run is over: any goroutine of it that is still alive and touches
			// a shim (ticker loops, watchdogs) ends here, so the bubble can finish
			reapIfStraggler(r)
		}
		return 2
	}
	return 1
}

//go:norace
func reapIfStraggler(r *rt) {
	if goid() != r.gs[0].goid {
		runtime.Goexit()
	}
}

// Active reports whether a simulated run is in progress.
//
//go:norace
func Active() bool {
	r := cur.Load()
	return r != nil && !r.stopped
}

//go:norace
func splitmix(x uint64) uint64 {
	x += 0x9e3779b97f4a7c15
	x = (x ^ (x >> 30)) * 0xbf58476d1ce4e5b9
	x = (x ^ (x >> 27)) * 0x94d049bb133111eb
	return x ^ (x >> 31)
}

// Mix is the stateless hash used for every derived decision.
//
//go:norace
func Mix(a, b uint64) uint64 { return splitmix(splitmix(a) ^ (b * 0xd6e8feb86659fd93)) }

// Start begins a simulated run. It must be called inside a synctest bubble by
// the root goroutine of the run, which becomes managed goroutine 0 and holds
// the run token.
//
//go:norace
func Start(cfg Config) {
	if cfg.MaxSteps == 0 {
		cfg.MaxSteps = 3_000_000
	}
	if cfg.IdleLimitMs == 0 {
		cfg.IdleLimitMs = 3_600_000
	}
	if cfg.StallMaxMs == 0 {
		cfg.StallMaxMs = 1500
	}
	// the standard library initialises some state lazily on first use (time's godebug setting behind a
	// sync.Once): do that here, visibly to the race detector, not later inside a RaceDisable section where
	// the Once's release would be dropped and every later reader would look racy
	warmOnce.Do(func() { time.NewTimer(time.Hour).Stop(); time.NewTicker(time.Hour).Stop(); <-time.After(0) })
	raceDisable()
	r := &rt{cfg: cfg, token: -1}
	r.epoch = epochCtr.Add(1)
	r.wake = make(chan struct{}, 1)
	r.stopCh = make(chan struct{})
	r.schedDone = make(chan struct{})
	r.start = time.Now().UnixNano()
	g := r.register(goid())
	r.token = g.id
	cur.Store(r)
	raceEnable()
	// started outside the RaceDisable section: a goroutine created while synchronisation events are ignored
	// does not inherit its creator's happens-before history
	go r.loop()
}

// Stop ends the run and returns its statistics. It must be called by the root
// goroutine, inside the bubble. Goroutines still parked are released with a
// poison flag: they unwind with runtime.Goexit and every shim operation they
// perform while unwinding is a no-op. Stop returns after they have finished
// unwinding (or blocked in something that is not ours).
//
//go:norace
func Stop() Stats {
	r := cur.Load()
	if r == nil {
		return Stats{}
	}
	raceDisable()
	r.mu.Lock()
	wasStopped := r.stopped
	r.stopped = true
	r.poison = true
	r.stats.Steps = r.step
	r.stats.Goroutines = r.ng
	r.stats.SimNanos = time.Now().UnixNano() - r.start
	st := r.stats
	st.PreemptSteps = make([]int64, r.npre)
	copy(st.PreemptSteps, r.presteps[:r.npre])
	if !wasStopped {
		close(r.stopCh)
	}
	r.mu.Unlock()
	<-r.schedDone
	// release parked goroutines so they can unwind
	for i := int32(0); i < r.ng; i++ {
		g := &r.gs[i]
		r.mu.Lock()
		p := g.parked && !g.done
		g.parked = false
		r.mu.Unlock()
		if p {
			select {
			case g.resume <- struct{}{}:
			case <-time.After(time.Second):
			}
		}
	}
	synctest.Wait()
	// cur stays set (stopped + poisoned) until the next Start, so that stragglers
	// of this run that wake up later are reaped instead of running on.
	raceEnable()
	return st
}

// Aborted reports whether the scheduler gave up on the run (stuck or over
// budget). After an abort every shim operation is a no-op and the root
// goroutine is expected to call Stop promptly.
//
//go:norace
func Aborted() bool {
	r := cur.Load()
	if r == nil {
		return false
	}
	raceDisable()
	r.mu.Lock()
	a := r.aborted
	r.mu.Unlock()
	raceEnable()
	return a
}

// Epoch identifies the current run.
//
//go:norace
func Epoch() uint32 {
	r := cur.Load()
	if r == nil {
		return 0
	}
	return r.epoch
}

//go:norace
func (r *rt) register(id uint64) *gstate {
	if r.ng >= MaxG {
		panic("simrt: too many goroutines")
	}
	g := &r.gs[r.ng]
	g.id = r.ng
	g.goid = id
	g.resume = make(chan struct{})
	r.ng++
	r.tabPut(id, g.id)
	return g
}

//go:norace
func (r *rt) tabPut(id uint64, idx int32) {
	h := int(splitmix(id) & 2047)
	for i := 0; i < 2048; i++ {
		e := &r.tab[(h+i)&2047]
		if !e.used || e.goid == id {
			e.used = true
			e.goid = id
			e.idx = idx
			return
		}
	}
	panic("simrt: goroutine table full")
}

// tabDel forgets a goroutine key (tombstone: the slot stays used with key 0).
//
//go:norace
func (r *rt) tabDel(id uint64) {
	h := int(splitmix(id) & 2047)
	for i := 0; i < 2048; i++ {
		e := &r.tab[(h+i)&2047]
		if !e.used {
			return
		}
		if e.goid == id {
			e.goid = 0
			e.idx = -1
			return
		}
	}
}

//go:norace
func (r *rt) tabGet(id uint64) int32 {
	h := int(splitmix(id) & 2047)
	for i := 0; i < 2048; i++ {
		e := &r.tab[(h+i)&2047]
		if !e.used {
			return -1
		}
		if e.goid == id {
			return e.idx
		}
	}
	return -1
}

// self returns the managed state of the calling goroutine, adopting it if it
// was not started through Go. Caller holds r.mu.
//
//go:norace
func (r *rt) self() *gstate {
	id := goid()
	idx := r.tabGet(id)
	if idx >= 0 {
		return &r.gs[idx]
	}
	r.stats.Adopted++
	return r.register(id)
}

//go:norace
func (r *rt) enabled(g *gstate, now int64) bool {
	if g.deadline != 0 && now >= g.deadline {
		return true
	}
	switch g.wkind {
	case wNone:
		return true
	case wMutex:
		return !g.wmu.held
	case wRLock:
		return !g.wrw.w && g.wrw.pendW == 0
	case wWLock:
		return !g.wrw.w && g.wrw.r == 0
	case wCond:
		return g.ticket < g.wcv.head
	case wWG:
		return g.wwg.n == 0
	case wOnce:
		return !g.won.running
	case wJoin:
		for i := g.joinLo; i < g.joinHi; i++ {
			if !r.gs[i].done {
				return false
			}
		}
		return true
	case wSleep:
		return false
	}
	return true
}

// decidePreempt is evaluated at every yield point of the token holder.
//
//go:norace
func (r *rt) decidePreempt(site int) bool {
	if r.cfg.Explicit {
		for r.explicit < len(r.cfg.Steps) && r.cfg.Steps[r.explicit] < r.step {
			r.explicit++
		}
		if r.explicit < len(r.cfg.Steps) && r.cfg.Steps[r.explicit] == r.step {
			r.explicit++
			return true
		}
		return false
	}
	ppm := r.cfg.PreemptPPM
	if site == SiteHot && r.cfg.HotPPM > 0 {
		ppm = r.cfg.HotPPM
	}
	if ppm == 0 {
		return false
	}
	return uint32(Mix(r.cfg.Seed, uint64(r.step))%1_000_000) < ppm
}

//go:norace
func (r *rt) fold(a, b, c uint64) {
	r.stats.Hash = splitmix(r.stats.Hash ^ (a*1000003 + b*10007 + c))
}

// wait describes what a goroutine needs before it may proceed.
type wait struct {
	kind     int
	mu       *Mu
	rw       *RW
	cv       *Cv
	wg       *Wg
	on       *On
	ticket   uint32
	deadline int64
	lo, hi   int32
}

// yield is the heart of the runtime: called with no rt lock held. It returns
// once the calling goroutine holds the run token and its wait condition holds
// (or its deadline passed). It returns false if the run is over: the caller
// must then treat its operation as a no-op.
//
//go:norace
func (r *rt) yield(site int, w *wait) bool {
	raceDisable()
	r.mu.Lock()
	if r.stopped {
		r.mu.Unlock()
		raceEnable()
		return false
	}
	g := r.self()
	if r.token == g.id {
		// only the token holder advances the step counter: a goroutine woken by a
		// timer or raw channel operation runs in parallel until it parks here, and
		// must not perturb the numbering that decisions are derived from
		r.step++
		r.stats.SiteCount[site]++
	}
	g.wkind = w.kind
	g.wmu, g.wrw, g.wcv, g.wwg, g.won = w.mu, w.rw, w.cv, w.wg, w.on
	g.ticket = w.ticket
	g.deadline = w.deadline
	g.joinLo, g.joinHi = w.lo, w.hi
	g.site = site
	if r.token == g.id {
		now := int64(0)
		if g.deadline != 0 {
			now = time.Now().UnixNano()
		}
		en := r.enabled(g, now)
		if en && !r.decidePreempt(site) {
			r.fold(uint64(r.step), uint64(g.id), uint64(site))
			r.unwait(g)
			r.mu.Unlock()
			raceEnable()
			return true
		}
		if en {
			r.stats.Preemptions++
			if r.npre < len(r.presteps) {
				r.presteps[r.npre] = r.step
				r.npre++
			}
			g.pre = true // scheduler prefers another goroutine
			if r.cfg.HoldMax > 0 {
				g.holdUntil = r.step + 1 + int64(Mix(r.cfg.Seed^0x401d, uint64(r.step))%uint64(r.cfg.HoldMax))
			}
		} else {
			r.stats.Blocked++
			g.pre = false
		}
		r.token = -1
	} else {
		g.pre = false
	}
	if w.kind == wWLock && !g.pendingW {
		g.pendingW = true
		w.rw.pendW++
	}
	g.parked = true
	r.mu.Unlock()
	select {
	case r.wake <- struct{}{}:
	default:
	}
	<-g.resume
	if r.poison {
		raceEnable()
		runtime.Goexit()
	}
	stopped := r.stopped
	raceEnable()
	return !stopped
}

// unwait clears wait bookkeeping once g proceeds. Caller holds r.mu.
//
//go:norace
func (r *rt) unwait(g *gstate) {
	if g.pendingW {
		g.pendingW = false
		g.wrw.pendW--
	}
	g.wkind = wNone
	g.wmu, g.wrw, g.wcv, g.wwg, g.won = nil, nil, nil, nil, nil
	g.deadline = 0
}

// abort stops scheduling and lets the root goroutine run on alone.
// Caller holds r.mu; abort releases it.
//
//go:norace
func (r *rt) abort() {
	r.stopped = true
	r.aborted = true
	root := &r.gs[0]
	p := root.parked
	root.parked = false
	close(r.stopCh)
	r.mu.Unlock()
	if p {
		select {
		case root.resume <- struct{}{}:
		case <-time.After(time.Hour):
		}
	}
}

//go:norace
func (r *rt) loop() {
	raceDisable()
	defer close(r.schedDone)
	idleSince := int64(-1)
	idleStep := int64(-1)
	var cand [MaxG]int32
	for {
		synctest.Wait()
		r.mu.Lock()
		if r.stopped {
			r.mu.Unlock()
			return
		}
		now := time.Now().UnixNano()
		// collect enabled goroutines, in id order
		n := 0
		nonPre := 0
		earliest := int64(0)
		for i := int32(0); i < r.ng; i++ {
			g := &r.gs[i]
			if !g.parked || g.done {
				continue
			}
			if r.enabled(g, now) {
				cand[n] = i
				n++
				if g.holdUntil > r.step {
					g.pre = true // still held back
				}
				if !g.pre {
					nonPre++
				}
			} else if g.deadline != 0 && (earliest == 0 || g.deadline < earliest) {
				earliest = g.deadline
			}
		}
		if r.token >= 0 {
			tg := &r.gs[r.token]
			if tg.parked || tg.done {
				r.token = -1
			}
			// otherwise the token holder is blocked in a raw channel operation or
			// timer (durably, or Wait would not have returned); it keeps the token
			// unless we hand it to somebody else below.
		}
		if n == 0 {
			if idleSince < 0 || idleStep != r.step {
				idleSince = now
				idleStep = r.step
			}
			if now-idleSince >= r.cfg.IdleLimitMs*1_000_000 {
				r.stats.Stuck = true
				r.abort()
				return
			}
			wait := r.cfg.IdleLimitMs*1_000_000 - (now - idleSince)
			if earliest != 0 && earliest-now < wait {
				wait = earliest - now
			}
			if wait < 1 {
				wait = 1
			}
			r.mu.Unlock()
			t := time.NewTimer(time.Duration(wait))
			select {
			case <-r.wake:
			case <-t.C:
			case <-r.stopCh:
				t.Stop()
				return
			}
			t.Stop()
			continue
		}
		idleSince = -1
		r.step++
		if r.step > r.cfg.MaxSteps {
			r.stats.OverBudget = true
			r.abort()
			return
		}
		h := Mix(r.cfg.Seed^0x5ca1ab1e, uint64(r.step))
		if r.cfg.StallPPM != 0 && uint32(h%1_000_000) < r.cfg.StallPPM {
			r.stats.Stalls++
			d := time.Duration(1+(h>>20)%uint64(r.cfg.StallMaxMs)) * time.Millisecond
			r.fold(uint64(r.step), 0xffff, uint64(d))
			r.mu.Unlock()
			t := time.NewTimer(d)
			select {
			case <-t.C:
			case <-r.stopCh:
				t.Stop()
				return
			}
			continue
		}
		// prefer goroutines that were not just preempted, so a preemption really switches
		pick := int32(-1)
		if nonPre > 0 && nonPre < n {
			k := int((h >> 24) % uint64(nonPre))
			for j := 0; j < n; j++ {
				if !r.gs[cand[j]].pre {
					if k == 0 {
						pick = cand[j]
						break
					}
					k--
				}
			}
		} else {
			pick = cand[int((h>>24)%uint64(n))]
		}
		g := &r.gs[pick]
		r.stats.Switches++
		r.fold(uint64(r.step), uint64(g.id)|0x10000, uint64(g.site))
		g.parked = false
		g.pre = false
		r.unwait(g)
		r.token = g.id
		r.mu.Unlock()
		select {
		case g.resume <- struct{}{}:
		case <-r.stopCh:
			return
		}
	}
}

// ---------------------------------------------------------------------------
// public yield points

var plainWait = wait{kind: wNone}

// Yield is a plain scheduling point. It reports false when the run is over.
//
//go:norace
func Yield(site int) bool {
	r := cur.Load()
	if r == nil {
		return false
	}
	w := plainWait
	return r.yield(site, &w)
}

// Go starts fn as a managed goroutine. The logical id is assigned by the
// parent (which holds the token), so ids are deterministic.
//
//go:norace
func Go(fn func()) { GoID(fn) }

// GoID is Go returning the logical id of the new goroutine (-1 outside a run).
//
//go:norace
func GoID(fn func()) int32 {
	r := cur.Load()
	if r == nil {
		if simProc.Load() {
			return -1 // run is over: a zombie must not start new work
		}
		go fn()
		return -1
	}
	w := plainWait
	if !r.yield(SiteGo, &w) {
		if r.aborted && goid() == r.gs[0].goid {
			go fn() // aborted run: the root goes on alone, unscheduled
		}
		return -1
	}
	raceDisable()
	r.mu.Lock()
	if r.ng >= MaxG {
		r.mu.Unlock()
		raceEnable()
		panic("simrt: too many goroutines")
	}
	g := &r.gs[r.ng]
	g.id = r.ng
	g.resume = make(chan struct{})
	g.parked = true // born parked: runs only when scheduled
	g.wkind = wNone
	g.site = SiteGo
	r.ng++
	idx := g.id
	r.mu.Unlock()
	raceEnable()
	raceReleaseG(r, idx)
	go goMain(r, idx, fn)
	return idx
}

//go:norace
func goMain(r *rt, idx int32, fn func()) {
	raceDisable()
	r.mu.Lock()
	g := &r.gs[idx]
	g.goid = goid()
	r.tabPut(g.goid, idx)
	r.mu.Unlock()
	<-g.resume
	if r.poison {
		raceEnable()
		return
	}
	raceEnable()
	raceAcquireG(r, idx)
	defer goExit(r, idx)
	defer goRecover(r, idx)
	fn()
}

// goRecover records a panic that escaped a managed goroutine. In production it
// would have killed the server process; under simulation the run goes on so
// that the harness can report it with the schedule that produced it.
//
//go:norace
func goRecover(r *rt, idx int32) {
	if p := recover(); p != nil {
		buf := make([]byte, 2048)
		n := runtime.Stack(buf, false)
		r.mu.Lock()
		if r.escaped == "" {
			r.escaped = fmt.Sprintf("goroutine %d: %v\n%s", idx, p, buf[:n])
		}
		r.mu.Unlock()
	}
}

// EscapedPanic returns the first panic that escaped a managed goroutine of the
// current (or just stopped) run, or "".
//
//go:norace
func EscapedPanic() string {
	r := cur.Load()
	if r == nil {
		return ""
	}
	r.mu.Lock()
	defer r.mu.Unlock()
	return r.escaped
}

//go:norace
func goExit(r *rt, idx int32) {
	raceReleaseDone(r, idx)
	raceDisable()
	r.mu.Lock()
	r.gs[idx].done = true
	r.tabDel(r.gs[idx].goid)
	if r.token == idx {
		r.token = -1
	}
	r.mu.Unlock()
	raceEnable()
}

// NextG returns the logical id the next Go call will assign (for Join ranges).
//
//go:norace
func NextG() int32 {
	r := cur.Load()
	if r == nil {
		return 0
	}
	raceDisable()
	r.mu.Lock()
	n := r.ng
	r.mu.Unlock()
	raceEnable()
	return n
}

// Join parks the caller until all goroutines with ids in [lo,hi) have
// finished or the simulated timeout (if > 0) elapsed. It reports whether all
// finished.
//
//go:norace
func Join(lo, hi int32, timeout time.Duration) bool {
	r := cur.Load()
	if r == nil {
		return true
	}
	w := wait{kind: wJoin, lo: lo, hi: hi}
	if timeout > 0 {
		w.deadline = time.Now().Add(timeout).UnixNano()
	}
	if !r.yield(SiteOther, &w) {
		return false
	}
	raceDisable()
	r.mu.Lock()
	all := true
	for i := lo; i < hi; i++ {
		if !r.gs[i].done {
			all = false
		}
	}
	r.mu.Unlock()
	raceEnable()
	if all {
		for i := lo; i < hi; i++ {
			raceAcquireDone(r, i)
		}
	}
	return all
}

// Sleep advances simulated time for the caller by d: the caller parks with a
// deadline, so other goroutines run and timers fire meanwhile.
//
//go:norace
func Sleep(d time.Duration) {
	r := cur.Load()
	if r == nil {
		time.Sleep(d)
		return
	}
	w := wait{kind: wSleep, deadline: time.Now().Add(d).UnixNano()}
	if !r.yield(SiteOther, &w) {
		time.Sleep(d)
	}
}

// GDone reports whether goroutine id has finished.
//
//go:norace
func GDone(id int32) bool {
	r := cur.Load()
	if r == nil {
		return true
	}
	raceDisable()
	r.mu.Lock()
	d := r.gs[id].done
	r.mu.Unlock()
	raceEnable()
	return d
}

// EventSeq returns a fresh global event sequence number. It is a yield point,
// so the numbers are totally ordered consistently with the schedule.
//
//go:norace
func EventSeq() int64 {
	r := cur.Load()
	if r == nil {
		return 0
	}
	w := plainWait
	if !r.yield(SiteEvent, &w) {
		return -1
	}
	raceDisable()
	r.mu.Lock()
	r.evseq++
	v := r.evseq
	r.mu.Unlock()
	raceEnable()
	return v
}

// Rand returns a deterministic value derived from the run seed and a label;
// used by shims for map-order permutation. It is a yield point.
//
//go:norace
func Rand(label uint64) uint64 {
	r := cur.Load()
	if r == nil {
		return splitmix(label)
	}
	w := plainWait
	if !r.yield(SiteMap, &w) {
		return splitmix(label)
	}
	raceDisable()
	r.mu.Lock()
	r.evseq++
	v := Mix(r.cfg.Seed^0x6d61704f, uint64(r.evseq)^label)
	r.mu.Unlock()
	raceEnable()
	return v
}

// ---------------------------------------------------------------------------
// primitives used by the ssync shims. Each returns handled=false when the shim
// must use the real primitive (Mode 0).

//go:norace
func (m *Mu) fresh(r *rt) {
	if m.epoch != r.epoch {
		*m = Mu{epoch: r.epoch}
	}
}

// MutexLock acquires m.
//
//go:norace
func MutexLock(m *Mu) {
	r := cur.Load()
	if r == nil {
		return
	}
	m.fresh(r)
	w := wait{kind: wMutex, mu: m}
	if !r.yield(SiteMutexLock, &w) {
		return
	}
	m.held = true
	raceAcquire(m)
}

// MutexTryLock tries to acquire m.
//
//go:norace
func MutexTryLock(m *Mu) bool {
	r := cur.Load()
	if r == nil {
		return true
	}
	m.fresh(r)
	w := plainWait
	if !r.yield(SiteMutexLock, &w) {
		return true
	}
	if m.held {
		return false
	}
	m.held = true
	raceAcquire(m)
	return true
}

// MutexUnlock releases m.
//
//go:norace
func MutexUnlock(m *Mu) {
	r := cur.Load()
	if r == nil {
		return
	}
	m.fresh(r)
	w := plainWait
	if !r.yield(SiteMutexUnlock, &w) {
		return
	}
	if !m.held {
		panic("sync: unlock of unlocked mutex")
	}
	raceRelease(m)
	m.held = false
}

//go:norace
func (m *RW) fresh(r *rt) {
	if m.epoch != r.epoch {
		*m = RW{epoch: r.epoch}
	}
}

//go:norace
func RWLock(m *RW) {
	r := cur.Load()
	if r == nil {
		return
	}
	m.fresh(r)
	w := wait{kind: wWLock, rw: m}
	if !r.yield(SiteMutexLock, &w) {
		return
	}
	m.w = true
	raceAcquire(m)
	raceAcquire(&m.r)
}

//go:norace
func RWTryLock(m *RW) bool {
	r := cur.Load()
	if r == nil {
		return true
	}
	m.fresh(r)
	w := plainWait
	if !r.yield(SiteMutexLock, &w) {
		return true
	}
	if m.w || m.r > 0 {
		return false
	}
	m.w = true
	raceAcquire(m)
	raceAcquire(&m.r)
	return true
}

//go:norace
func RWUnlock(m *RW) {
	r := cur.Load()
	if r == nil {
		return
	}
	m.fresh(r)
	w := plainWait
	if !r.yield(SiteMutexUnlock, &w) {
		return
	}
	if !m.w {
		panic("sync: Unlock of unlocked RWMutex")
	}
	raceRelease(m)
	m.w = false
}

//go:norace
func RWRLock(m *RW) {
	r := cur.Load()
	if r == nil {
		return
	}
	m.fresh(r)
	w := wait{kind: wRLock, rw: m}
	if !r.yield(SiteRLock, &w) {
		return
	}
	m.r++
	raceAcquire(m)
}

//go:norace
func RWTryRLock(m *RW) bool {
	r := cur.Load()
	if r == nil {
		return true
	}
	m.fresh(r)
	w := plainWait
	if !r.yield(SiteRLock, &w) {
		return true
	}
	if m.w || m.pendW > 0 {
		return false
	}
	m.r++
	raceAcquire(m)
	return true
}

//go:norace
func RWRUnlock(m *RW) {
	r := cur.Load()
	if r == nil {
		return
	}
	m.fresh(r)
	w := plainWait
	if !r.yield(SiteRUnlock, &w) {
		return
	}
	if m.r <= 0 {
		panic("sync: RUnlock of unlocked RWMutex")
	}
	raceReleaseMerge(&m.r)
	m.r--
}

//go:norace
func (c *Cv) fresh(r *rt) {
	if c.epoch != r.epoch {
		*c = Cv{epoch: r.epoch}
	}
}

// CondEnlist is the first half of sync.Cond.Wait: a scheduling point (the
// window in which a broadcast made without holding L is lost) followed by
// taking a ticket. Like the real implementation the waiter is enlisted before
// L is released. ok=false means the run is over.
//
//go:norace
func CondEnlist(c *Cv) (ticket uint32, ok bool) {
	r := cur.Load()
	if r == nil {
		return 0, false
	}
	c.fresh(r)
	w := plainWait
	if !r.yield(SiteCond, &w) {
		return 0, false
	}
	ticket = c.tail
	c.tail++
	return ticket, true
}

// CondPark is the second half: block until the ticket has been signalled.
//
//go:norace
func CondPark(c *Cv, ticket uint32) {
	r := cur.Load()
	if r == nil {
		return
	}
	w := wait{kind: wCond, cv: c, ticket: ticket}
	if !r.yield(SiteCond, &w) {
		return
	}
	raceAcquire(c)
}

//go:norace
func CondSignal(c *Cv) {
	r := cur.Load()
	if r == nil {
		return
	}
	c.fresh(r)
	w := plainWait
	if !r.yield(SiteCond, &w) {
		return
	}
	raceRelease(c)
	if c.head < c.tail {
		c.head++
	}
}

//go:norace
func CondBroadcast(c *Cv) {
	r := cur.Load()
	if r == nil {
		return
	}
	c.fresh(r)
	w := plainWait
	if !r.yield(SiteCond, &w) {
		return
	}
	raceRelease(c)
	c.head = c.tail
}

//go:norace
func (w *Wg) fresh(r *rt) {
	if w.epoch != r.epoch {
		*w = Wg{epoch: r.epoch}
	}
}

//go:norace
func WGAdd(g *Wg, d int) {
	r := cur.Load()
	if r == nil {
		return
	}
	g.fresh(r)
	w := plainWait
	if !r.yield(SiteWG, &w) {
		return
	}
	if d < 0 {
		raceReleaseMerge(g)
	}
	g.n += int64(d)
	if g.n < 0 {
		panic("sync: negative WaitGroup counter")
	}
}

//go:norace
func WGWait(g *Wg) {
	r := cur.Load()
	if r == nil {
		return
	}
	g.fresh(r)
	w := wait{kind: wWG, wg: g}
	if !r.yield(SiteWG, &w) {
		return
	}
	raceAcquire(g)
}

//go:norace
func (o *On) fresh(r *rt) {
	if o.epoch != r.epoch {
		*o = On{epoch: r.epoch}
	}
}

// OnceBegin reports whether the caller must run f. If it returns true the
// caller must call OnceEnd afterwards.
//
//go:norace
func OnceBegin(o *On) bool {
	r := cur.Load()
	if r == nil {
		return false
	}
	o.fresh(r)
	w := wait{kind: wOnce, on: o}
	if !r.yield(SiteOnce, &w) {
		return false
	}
	if o.done {
		raceAcquire(o)
		return false
	}
	o.running = true
	return true
}

//go:norace
func OnceEnd(o *On) {
	raceRelease(o)
	o.done = true
	o.running = false
}

// HotYield is a scheduling point inserted by the instrumenter in front of an operation that typically ends a
// check-then-act window (acquiring a record guard); runs may preempt there with a much higher probability.
//
//go:norace
func HotYield() {
	r := cur.Load()
	if r == nil {
		return
	}
	w := plainWait
	r.yield(SiteHot, &w)
}

// AtomicYield is the scheduling point in front of every shimmed atomic op.
//
//go:norace
func AtomicYield() {
	r := cur.Load()
	if r == nil {
		return
	}
	w := plainWait
	r.yield(SiteAtomic, &w)
}

// Abandon clears the current run without any hand-shaking. It is used by the
// harness after the bubble itself died (synctest deadlock panic): every
// goroutine of the run is blocked forever and unreachable.
//
//go:norace
func Abandon() Stats {
	r := cur.Load()
	if r == nil {
		return Stats{}
	}
	r.mu.Lock()
	r.stopped = true
	r.stats.Steps = r.step
	r.stats.Goroutines = r.ng
	st := r.stats
	st.PreemptSteps = make([]int64, r.npre)
	copy(st.PreemptSteps, r.presteps[:r.npre])
	r.mu.Unlock()
	cur.Store(nil)
	return st
}

// RawBlocked reports whether managed goroutine id is currently blocked in
// something the scheduler does not manage (channel operation, select, timer).
// It is meaningful when called by the token holder: every other goroutine is
// then parked, finished, or durably blocked.
//
//go:norace
func RawBlocked(id int32) bool {
	r := cur.Load()
	if r == nil {
		return false
	}
	raceDisable()
	r.mu.Lock()
	g := &r.gs[id]
	b := id < r.ng && !g.parked && !g.done && r.token != id && g.goid != 0
	r.mu.Unlock()
	raceEnable()
	return b
}

// Self returns the logical id of the calling goroutine.
//
//go:norace
func Self() int32 {
	r := cur.Load()
	if r == nil {
		return -1
	}
	raceDisable()
	r.mu.Lock()
	id := r.self().id
	r.mu.Unlock()
	raceEnable()
	return id
}

// JoinIDs waits until every listed goroutine has finished or the simulated
// timeout elapsed; it reports whether all finished.
//
//go:norace
func JoinIDs(ids []int32, timeout time.Duration) bool {
	deadline := time.Now().Add(timeout)
	for {
		all := true
		for _, id := range ids {
			if id >= 0 && !GDone(id) {
				all = false
				break
			}
		}
		if all {
			if r := cur.Load(); r != nil {
				for _, id := range ids {
					if id >= 0 {
						raceAcquireDone(r, id) // goroutine exit happens before the join returns
					}
				}
			}
			return true
		}
		if Aborted() || !time.Now().Before(deadline) {
			return false
		}
		Sleep(time.Millisecond)
	}
}

// ---------------------------------------------------------------------------
// probes: named counters fed by instrumentation inserted into the system under
// test (see simgen/probes.go). They do not yield and do not perturb schedules.

var (
	probeMu  sync.Mutex
	probeCur map[string]int64
	probeMax map[string]int64
	probeMin map[string]int64
)

// ProbeReset clears all probe counters (called at the start of a run).
//
//go:norace
func ProbeReset() {
	probeMu.Lock()
	probeCur = map[string]int64{}
	probeMax = map[string]int64{}
	probeMin = map[string]int64{}
	probeMu.Unlock()
}

// ProbeAdd adds d to the named counter and tracks its maximum.
//
//go:norace
func ProbeAdd(name string, d int64) {
	probeMu.Lock()
	if probeCur == nil {
		probeCur = map[string]int64{}
		probeMax = map[string]int64{}
		probeMin = map[string]int64{}
	}
	probeCur[name] += d
	if probeCur[name] > probeMax[name] {
		probeMax[name] = probeCur[name]
	}
	if probeCur[name] < probeMin[name] {
		probeMin[name] = probeCur[name]
	}
	probeMu.Unlock()
}

// ProbeMin returns the minimum the named counter reached since ProbeReset (0 if it never went negative).
//
//go:norace
func ProbeMin(name string) int64 {
	probeMu.Lock()
	defer probeMu.Unlock()
	return probeMin[name]
}

// ProbeMax returns the maximum the named counter reached since ProbeReset.
//
//go:norace
func ProbeMax(name string) int64 {
	probeMu.Lock()
	defer probeMu.Unlock()
	return probeMax[name]
}

// ProbeNames lists the counters that were touched.
//
//go:norace
func ProbeNames() []string {
	probeMu.Lock()
	defer probeMu.Unlock()
	var out []string
	for k := range probeMax {
		out = append(out, k)
	}
	return out
}

// SelectOrder returns which of n polling orders a rewritten select uses. It is
// a scheduling point; outside simulated runs the source order (0) is used.
//
//go:norace
func SelectOrder(n int) int {
	if n <= 1 || Mode() != 1 {
		return 0
	}
	return int(Rand(0x5e1ec7) % uint64(n))
}
