#include "textflag.h"

// func getg() uintptr
// Returns the address of the current goroutine's g structure. It is used only
// as an opaque, unique key for "which goroutine is calling" (much cheaper than
// parsing runtime.Stack output).
TEXT ·getg(SB),NOSPLIT,$0-8
	MOVQ (TLS), AX
	MOVQ AX, ret+0(FP)
	RET
