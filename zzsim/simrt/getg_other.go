//go:build !amd64

package simrt

import "runtime"

// goid parses the current goroutine id from runtime.Stack.
func goid() uint64 {
	var buf [40]byte
	n := runtime.Stack(buf[:], false)
	var id uint64
	for i := 10; i < n; i++ {
		c := buf[i]
		if c < '0' || c > '9' {
			break
		}
		id = id*10 + uint64(c-'0')
	}
	return id
}
