//go:build race

package simrt

import (
	"runtime"
	"unsafe"
)

// Under the race detector the scheduler's own hand-off (run token passed through
// channels and a raw mutex) must stay invisible, or every pair of accesses would
// be ordered by it and no race could ever be reported: every park/resume happens
// between runtime.RaceDisable and runtime.RaceEnable, which makes the detector
// ignore the synchronisation events of the calling goroutine, and the functions
// of this package are //go:norace so that their own (token-serialised) accesses
// are not instrumented. The synchronisation the *program* performs is reported
// instead by the shims, at the places where the real primitives report it.

//go:norace
func raceDisable() { runtime.RaceDisable() }

//go:norace
func raceEnable() { runtime.RaceEnable() }

//go:norace
func ptrOf(p any) unsafe.Pointer { return (*[2]unsafe.Pointer)(unsafe.Pointer(&p))[1] }

//go:norace
func raceAcquire(p any) { runtime.RaceAcquire(ptrOf(p)) }

//go:norace
func raceRelease(p any) { runtime.RaceRelease(ptrOf(p)) }

//go:norace
func raceReleaseMerge(p any) { runtime.RaceReleaseMerge(ptrOf(p)) }

//go:norace
func raceReleaseG(r *rt, i int32) { runtime.RaceRelease(unsafe.Pointer(&r.gs[i].id)) }

//go:norace
func raceAcquireG(r *rt, i int32) { runtime.RaceAcquire(unsafe.Pointer(&r.gs[i].id)) }

//go:norace
func raceReleaseDone(r *rt, i int32) { runtime.RaceRelease(unsafe.Pointer(&r.gs[i].done)) }

//go:norace
func raceAcquireDone(r *rt, i int32) { runtime.RaceAcquire(unsafe.Pointer(&r.gs[i].done)) }

// RaceAcquire / RaceRelease / RaceReleaseMerge are exported for the shims.
//
//go:norace
func RaceAcquire(p any) { runtime.RaceAcquire(ptrOf(p)) }

//go:norace
func RaceRelease(p any) { runtime.RaceRelease(ptrOf(p)) }

//go:norace
func RaceReleaseMerge(p any) { runtime.RaceReleaseMerge(ptrOf(p)) }

const RaceEnabled = true
