// Package sfilepath is the simulated drop-in for path/filepath: Walk, WalkDir
// and Glob run over the simulated disk when one is installed; everything else
// is a generated forwarder (zz_forward.go).
package sfilepath

import (
	"io/fs"
	"path/filepath"
	"sort"

	os "github.com/hydraide/hydraide/app/zzsim/sos"
)

type WalkFunc = filepath.WalkFunc

var (
	SkipDir = filepath.SkipDir
	SkipAll = filepath.SkipAll
)

func Walk(root string, fn WalkFunc) error {
	if os.Disk() == nil {
		return filepath.Walk(root, fn)
	}
	info, err := os.Lstat(root)
	if err != nil {
		err = fn(root, nil, err)
	} else {
		err = walk(root, info, fn)
	}
	if err == SkipDir || err == SkipAll {
		return nil
	}
	return err
}

func walk(path string, info fs.FileInfo, walkFn WalkFunc) error {
	if !info.IsDir() {
		return walkFn(path, info, nil)
	}
	des, err := os.ReadDir(path)
	err1 := walkFn(path, info, err)
	if err != nil || err1 != nil {
		return err1
	}
	names := make([]string, 0, len(des))
	for _, de := range des {
		names = append(names, de.Name())
	}
	sort.Strings(names)
	for _, name := range names {
		filename := filepath.Join(path, name)
		fileInfo, err := os.Lstat(filename)
		if err != nil {
			if err := walkFn(filename, fileInfo, err); err != nil && err != SkipDir {
				return err
			}
		} else {
			err = walk(filename, fileInfo, walkFn)
			if err != nil {
				if !fileInfo.IsDir() || err != SkipDir {
					return err
				}
			}
		}
	}
	return nil
}

func WalkDir(root string, fn fs.WalkDirFunc) error {
	if os.Disk() == nil {
		return filepath.WalkDir(root, fn)
	}
	info, err := os.Lstat(root)
	if err != nil {
		err = fn(root, nil, err)
	} else {
		err = walkDir(root, fs.FileInfoToDirEntry(info), fn)
	}
	if err == SkipDir || err == SkipAll {
		return nil
	}
	return err
}

func walkDir(path string, d fs.DirEntry, walkDirFn fs.WalkDirFunc) error {
	if err := walkDirFn(path, d, nil); err != nil || !d.IsDir() {
		if err == SkipDir && d.IsDir() {
			err = nil
		}
		return err
	}
	dirs, err := os.ReadDir(path)
	if err != nil {
		err = walkDirFn(path, d, err)
		if err != nil {
			if err == SkipDir && d.IsDir() {
				err = nil
			}
			return err
		}
	}
	for _, d1 := range dirs {
		path1 := filepath.Join(path, d1.Name())
		if err := walkDir(path1, d1, walkDirFn); err != nil {
			if err == SkipDir {
				break
			}
			return err
		}
	}
	return nil
}

func Glob(pattern string) ([]string, error) {
	if os.Disk() == nil {
		return filepath.Glob(pattern)
	}
	dir := filepath.Dir(pattern)
	des, err := os.ReadDir(dir)
	if err != nil {
		return nil, nil
	}
	var out []string
	for _, de := range des {
		ok, err := filepath.Match(filepath.Base(pattern), de.Name())
		if err != nil {
			return nil, err
		}
		if ok {
			out = append(out, filepath.Join(dir, de.Name()))
		}
	}
	return out, nil
}
