// Package ssync is the simulated drop-in for package sync. Instrumented files
// import it under the name "sync". In mode 0 (no simulation in this process)
// every type behaves exactly like the real one; in mode 1 blocking and
// hand-off are decided by simrt; in mode 2 (run over) operations are no-ops.
package ssync

import (
	"sync"

	"github.com/hydraide/hydraide/app/zzsim/simrt"
)

type Locker = sync.Locker
type Pool = sync.Pool

func OnceFunc(f func()) func()                                 { return sync.OnceFunc(f) }
func OnceValue[T any](f func() T) func() T                     { return sync.OnceValue(f) }
func OnceValues[T1, T2 any](f func() (T1, T2)) func() (T1, T2) { return sync.OnceValues(f) }

type Mutex struct {
	real sync.Mutex
	sim  simrt.Mu
}

func (m *Mutex) Lock() {
	switch simrt.Mode() {
	case 0:
		m.real.Lock()
	case 1:
		simrt.MutexLock(&m.sim)
	}
}

func (m *Mutex) TryLock() bool {
	switch simrt.Mode() {
	case 0:
		return m.real.TryLock()
	case 1:
		return simrt.MutexTryLock(&m.sim)
	}
	return true
}

func (m *Mutex) Unlock() {
	switch simrt.Mode() {
	case 0:
		m.real.Unlock()
	case 1:
		simrt.MutexUnlock(&m.sim)
	}
}

type RWMutex struct {
	real sync.RWMutex
	sim  simrt.RW
}

func (m *RWMutex) Lock() {
	switch simrt.Mode() {
	case 0:
		m.real.Lock()
	case 1:
		simrt.RWLock(&m.sim)
	}
}

func (m *RWMutex) TryLock() bool {
	switch simrt.Mode() {
	case 0:
		return m.real.TryLock()
	case 1:
		return simrt.RWTryLock(&m.sim)
	}
	return true
}

func (m *RWMutex) Unlock() {
	switch simrt.Mode() {
	case 0:
		m.real.Unlock()
	case 1:
		simrt.RWUnlock(&m.sim)
	}
}

func (m *RWMutex) RLock() {
	switch simrt.Mode() {
	case 0:
		m.real.RLock()
	case 1:
		simrt.RWRLock(&m.sim)
	}
}

func (m *RWMutex) TryRLock() bool {
	switch simrt.Mode() {
	case 0:
		return m.real.TryRLock()
	case 1:
		return simrt.RWTryRLock(&m.sim)
	}
	return true
}

func (m *RWMutex) RUnlock() {
	switch simrt.Mode() {
	case 0:
		m.real.RUnlock()
	case 1:
		simrt.RWRUnlock(&m.sim)
	}
}

type rlocker RWMutex

func (r *rlocker) Lock()   { (*RWMutex)(r).RLock() }
func (r *rlocker) Unlock() { (*RWMutex)(r).RUnlock() }

func (m *RWMutex) RLocker() Locker { return (*rlocker)(m) }

// Cond mirrors sync.Cond (exported field L, constructor NewCond).
type Cond struct {
	L    Locker
	real *sync.Cond
	sim  simrt.Cv
}

func NewCond(l Locker) *Cond { return &Cond{L: l} }

func (c *Cond) realCond() *sync.Cond {
	if c.real == nil {
		c.real = sync.NewCond(c.L)
	}
	return c.real
}

func (c *Cond) Wait() {
	switch simrt.Mode() {
	case 0:
		c.realCond().Wait()
	case 1:
		t, ok := simrt.CondEnlist(&c.sim)
		if !ok {
			return
		}
		c.L.Unlock()
		simrt.CondPark(&c.sim, t)
		c.L.Lock()
	}
}

func (c *Cond) Signal() {
	switch simrt.Mode() {
	case 0:
		c.realCond().Signal()
	case 1:
		simrt.CondSignal(&c.sim)
	}
}

func (c *Cond) Broadcast() {
	switch simrt.Mode() {
	case 0:
		c.realCond().Broadcast()
	case 1:
		simrt.CondBroadcast(&c.sim)
	}
}

type WaitGroup struct {
	real sync.WaitGroup
	sim  simrt.Wg
}

func (w *WaitGroup) Add(d int) {
	switch simrt.Mode() {
	case 0:
		w.real.Add(d)
	case 1:
		simrt.WGAdd(&w.sim, d)
	}
}

func (w *WaitGroup) Done() { w.Add(-1) }

func (w *WaitGroup) Wait() {
	switch simrt.Mode() {
	case 0:
		w.real.Wait()
	case 1:
		simrt.WGWait(&w.sim)
	}
}

func (w *WaitGroup) Go(f func()) {
	w.Add(1)
	simrt.Go(func() {
		defer w.Done()
		f()
	})
}

type Once struct {
	real sync.Once
	sim  simrt.On
}

func (o *Once) Do(f func()) {
	switch simrt.Mode() {
	case 0:
		o.real.Do(f)
	case 1:
		if simrt.OnceBegin(&o.sim) {
			defer simrt.OnceEnd(&o.sim)
			f()
		}
	}
}

// Map is a deterministic replacement for sync.Map: insertion-ordered storage
// behind one scheduling point per operation; Range visits a snapshot in an
// order permuted by the run's PRNG.
type Map struct {
	real sync.Map
	mu   sync.Mutex // raw, only guards the fields below for mode-2 stragglers
	m    map[any]*mapEntry
	keys []any
	ep   uint32
}

type mapEntry struct {
	v    any
	live bool
}

func (m *Map) simState() {
	ep := simrt.Epoch()
	if m.m == nil || m.ep != ep {
		m.m = make(map[any]*mapEntry)
		m.keys = nil
		m.ep = ep
	}
}

func (m *Map) op() {
	simrt.Yield(simrt.SiteMap)
	simrt.RaceAcquire(m)
}

func (m *Map) opDone() { simrt.RaceRelease(m) }

func (m *Map) Load(key any) (value any, ok bool) {
	if simrt.Mode() == 0 {
		return m.real.Load(key)
	}
	m.op()
	defer m.opDone()
	m.mu.Lock()
	defer m.mu.Unlock()
	m.simState()
	if e, ok := m.m[key]; ok && e.live {
		return e.v, true
	}
	return nil, false
}

func (m *Map) Store(key, value any) {
	if simrt.Mode() == 0 {
		m.real.Store(key, value)
		return
	}
	m.op()
	defer m.opDone()
	m.mu.Lock()
	defer m.mu.Unlock()
	m.simState()
	m.storeLocked(key, value)
}

func (m *Map) storeLocked(key, value any) {
	if e, ok := m.m[key]; ok {
		if !e.live {
			m.keys = append(m.keys, key)
		}
		e.v, e.live = value, true
		return
	}
	m.m[key] = &mapEntry{v: value, live: true}
	m.keys = append(m.keys, key)
}

func (m *Map) deleteLocked(key any) {
	if e, ok := m.m[key]; ok && e.live {
		e.live = false
		e.v = nil
		for i, k := range m.keys {
			if k == key {
				m.keys = append(m.keys[:i:i], m.keys[i+1:]...)
				break
			}
		}
		delete(m.m, key)
	}
}

func (m *Map) LoadOrStore(key, value any) (actual any, loaded bool) {
	if simrt.Mode() == 0 {
		return m.real.LoadOrStore(key, value)
	}
	m.op()
	defer m.opDone()
	m.mu.Lock()
	defer m.mu.Unlock()
	m.simState()
	if e, ok := m.m[key]; ok && e.live {
		return e.v, true
	}
	m.storeLocked(key, value)
	return value, false
}

func (m *Map) LoadAndDelete(key any) (value any, loaded bool) {
	if simrt.Mode() == 0 {
		return m.real.LoadAndDelete(key)
	}
	m.op()
	defer m.opDone()
	m.mu.Lock()
	defer m.mu.Unlock()
	m.simState()
	if e, ok := m.m[key]; ok && e.live {
		v := e.v
		m.deleteLocked(key)
		return v, true
	}
	return nil, false
}

func (m *Map) Delete(key any) { m.LoadAndDelete(key) }

func (m *Map) Swap(key, value any) (previous any, loaded bool) {
	if simrt.Mode() == 0 {
		return m.real.Swap(key, value)
	}
	m.op()
	defer m.opDone()
	m.mu.Lock()
	defer m.mu.Unlock()
	m.simState()
	if e, ok := m.m[key]; ok && e.live {
		previous, loaded = e.v, true
	}
	m.storeLocked(key, value)
	return
}

func (m *Map) CompareAndSwap(key, old, new any) (swapped bool) {
	if simrt.Mode() == 0 {
		return m.real.CompareAndSwap(key, old, new)
	}
	m.op()
	defer m.opDone()
	m.mu.Lock()
	defer m.mu.Unlock()
	m.simState()
	if e, ok := m.m[key]; ok && e.live && e.v == old {
		e.v = new
		return true
	}
	return false
}

func (m *Map) CompareAndDelete(key, old any) (deleted bool) {
	if simrt.Mode() == 0 {
		return m.real.CompareAndDelete(key, old)
	}
	m.op()
	defer m.opDone()
	m.mu.Lock()
	defer m.mu.Unlock()
	m.simState()
	if e, ok := m.m[key]; ok && e.live && e.v == old {
		m.deleteLocked(key)
		return true
	}
	return false
}

func (m *Map) Clear() {
	if simrt.Mode() == 0 {
		m.real.Clear()
		return
	}
	m.op()
	defer m.opDone()
	m.mu.Lock()
	defer m.mu.Unlock()
	m.m = make(map[any]*mapEntry)
	m.keys = nil
	m.ep = simrt.Epoch()
}

// Range visits a snapshot of the keys in PRNG-permuted order; like the real
// Range, entries deleted meanwhile are skipped and each callback is a point
// where other goroutines may run.
func (m *Map) Range(f func(key, value any) bool) {
	if simrt.Mode() == 0 {
		m.real.Range(f)
		return
	}
	m.op()
	m.mu.Lock()
	m.simState()
	keys := append([]any(nil), m.keys...)
	m.mu.Unlock()
	m.opDone()
	if len(keys) > 1 {
		r := simrt.Rand(uint64(len(keys)))
		for i := len(keys) - 1; i > 0; i-- {
			r = r*6364136223846793005 + 1442695040888963407
			j := int((r >> 33) % uint64(i+1))
			keys[i], keys[j] = keys[j], keys[i]
		}
	}
	for _, k := range keys {
		m.op()
		m.mu.Lock()
		e, ok := m.m[k]
		var v any
		live := ok && e.live
		if live {
			v = e.v
		}
		m.mu.Unlock()
		m.opDone()
		if !live {
			continue
		}
		if !f(k, v) {
			return
		}
	}
}
