// Package sos is the simulated drop-in for package os. Instrumented files
// import it under the name "os". While a simulated disk is installed
// (SetDisk) every file-system call goes to it; otherwise calls are forwarded
// to the real package. Identifiers not defined here are generated forwarders
// (zz_forward.go).
package sos

import (
	"errors"
	"io"
	"io/fs"
	"os"
	"sync/atomic"
	"syscall"
	"time"

	"github.com/hydraide/hydraide/app/zzsim/simdisk"
	"github.com/hydraide/hydraide/app/zzsim/simrt"
)

var disk atomic.Pointer[simdisk.Disk]

// SetDisk installs (or, with nil, removes) the simulated disk.
func SetDisk(d *simdisk.Disk) { disk.Store(d) }

// Disk returns the installed simulated disk.
func Disk() *simdisk.Disk { return disk.Load() }

var errRunOver = &fs.PathError{Op: "sim", Path: "", Err: syscall.EIO}

// cur returns the disk to use; zombie=true means the caller belongs to a
// finished run and must not touch anything.
func cur() (d *simdisk.Disk, zombie bool) {
	d = disk.Load()
	if d == nil {
		return nil, false
	}
	switch simrt.Mode() {
	case 1:
		if !simrt.Yield(simrt.SiteFile) {
			return nil, true
		}
	case 2:
		if zombieGuard.Load() {
			return nil, true
		}
	}
	return d, false
}

// zombieGuard makes file operations issued outside an active run fail in a
// sim process that is between runs (stragglers of a finished run). Harnesses
// that use the disk outside bubbles (storage-level checks) leave it off.
var zombieGuard atomic.Bool

func SetZombieGuard(v bool) { zombieGuard.Store(v) }

type (
	FileInfo  = fs.FileInfo
	FileMode  = fs.FileMode
	DirEntry  = fs.DirEntry
	PathError = fs.PathError
)

const (
	O_RDONLY = os.O_RDONLY
	O_WRONLY = os.O_WRONLY
	O_RDWR   = os.O_RDWR
	O_APPEND = os.O_APPEND
	O_CREATE = os.O_CREATE
	O_EXCL   = os.O_EXCL
	O_SYNC   = os.O_SYNC
	O_TRUNC  = os.O_TRUNC
)

// File mirrors *os.File for the methods the repository uses.
type File struct {
	real *os.File
	sim  *simdisk.Handle
}

func (f *File) y() bool {
	if f.sim == nil {
		return true
	}
	switch simrt.Mode() {
	case 1:
		return simrt.Yield(simrt.SiteFile)
	case 2:
		return !zombieGuard.Load()
	}
	return true
}

func (f *File) Name() string {
	if f.sim != nil {
		return f.sim.Name()
	}
	return f.real.Name()
}

func (f *File) Read(b []byte) (int, error) {
	if f.sim != nil {
		if !f.y() {
			return 0, errRunOver
		}
		return f.sim.Read(b)
	}
	return f.real.Read(b)
}

func (f *File) ReadAt(b []byte, off int64) (int, error) {
	if f.sim != nil {
		if !f.y() {
			return 0, errRunOver
		}
		return f.sim.ReadAt(b, off)
	}
	return f.real.ReadAt(b, off)
}

func (f *File) Write(b []byte) (int, error) {
	if f.sim != nil {
		if !f.y() {
			return 0, errRunOver
		}
		return f.sim.Write(b)
	}
	return f.real.Write(b)
}

func (f *File) WriteString(s string) (int, error) { return f.Write([]byte(s)) }

func (f *File) WriteAt(b []byte, off int64) (int, error) {
	if f.sim != nil {
		if !f.y() {
			return 0, errRunOver
		}
		return f.sim.WriteAt(b, off)
	}
	return f.real.WriteAt(b, off)
}

func (f *File) Seek(off int64, whence int) (int64, error) {
	if f.sim != nil {
		if !f.y() {
			return 0, errRunOver
		}
		return f.sim.Seek(off, whence)
	}
	return f.real.Seek(off, whence)
}

func (f *File) Truncate(size int64) error {
	if f.sim != nil {
		if !f.y() {
			return errRunOver
		}
		return f.sim.Truncate(size)
	}
	return f.real.Truncate(size)
}

func (f *File) Sync() error {
	if f.sim != nil {
		if !f.y() {
			return errRunOver
		}
		return f.sim.Sync()
	}
	return f.real.Sync()
}

func (f *File) Close() error {
	if f == nil {
		return os.ErrInvalid
	}
	if f.sim != nil {
		if !f.y() {
			return errRunOver
		}
		return f.sim.Close()
	}
	return f.real.Close()
}

func (f *File) Stat() (FileInfo, error) {
	if f.sim != nil {
		if !f.y() {
			return nil, errRunOver
		}
		return f.sim.Stat()
	}
	return f.real.Stat()
}

func (f *File) ReadDir(n int) ([]DirEntry, error) {
	if f.sim != nil {
		if !f.y() {
			return nil, errRunOver
		}
		return f.sim.ReadDir(n)
	}
	return f.real.ReadDir(n)
}

func (f *File) Readdir(n int) ([]FileInfo, error) {
	if f.sim != nil {
		des, err := f.ReadDir(n)
		out := make([]FileInfo, 0, len(des))
		for _, de := range des {
			fi, _ := de.Info()
			out = append(out, fi)
		}
		return out, err
	}
	return f.real.Readdir(n)
}

func (f *File) Readdirnames(n int) ([]string, error) {
	if f.sim != nil {
		des, err := f.ReadDir(n)
		out := make([]string, 0, len(des))
		for _, de := range des {
			out = append(out, de.Name())
		}
		return out, err
	}
	return f.real.Readdirnames(n)
}

func (f *File) ReadFrom(r io.Reader) (int64, error) {
	if f.sim != nil {
		buf := make([]byte, 32*1024)
		var total int64
		for {
			n, err := r.Read(buf)
			if n > 0 {
				w, werr := f.Write(buf[:n])
				total += int64(w)
				if werr != nil {
					return total, werr
				}
			}
			if err == io.EOF {
				return total, nil
			}
			if err != nil {
				return total, err
			}
		}
	}
	return f.real.ReadFrom(r)
}

func (f *File) Chmod(m FileMode) error {
	if f.sim != nil {
		return nil
	}
	return f.real.Chmod(m)
}

func (f *File) Fd() uintptr {
	if f.sim != nil {
		return ^uintptr(0)
	}
	return f.real.Fd()
}

func (f *File) SetDeadline(t time.Time) error {
	if f.sim != nil {
		return nil
	}
	return f.real.SetDeadline(t)
}

var (
	Stdin  = &File{real: os.Stdin}
	Stdout = &File{real: os.Stdout}
	Stderr = &File{real: os.Stderr}
)

func OpenFile(name string, flag int, perm FileMode) (*File, error) {
	d, z := cur()
	if z {
		return nil, errRunOver
	}
	if d == nil {
		f, err := os.OpenFile(name, flag, perm)
		if err != nil {
			return nil, err
		}
		return &File{real: f}, nil
	}
	h, err := d.OpenFile(name, flag)
	if err != nil {
		return nil, err
	}
	return &File{sim: h}, nil
}

func Open(name string) (*File, error) { return OpenFile(name, O_RDONLY, 0) }
func Create(name string) (*File, error) {
	return OpenFile(name, O_RDWR|O_CREATE|O_TRUNC, 0o666)
}

func Stat(name string) (FileInfo, error) {
	d, z := cur()
	if z {
		return nil, errRunOver
	}
	if d == nil {
		return os.Stat(name)
	}
	return d.Stat(name)
}

func Lstat(name string) (FileInfo, error) { return Stat(name) }

func Mkdir(name string, perm FileMode) error {
	d, z := cur()
	if z {
		return errRunOver
	}
	if d == nil {
		return os.Mkdir(name, perm)
	}
	return d.Mkdir(name)
}

func MkdirAll(name string, perm FileMode) error {
	d, z := cur()
	if z {
		return errRunOver
	}
	if d == nil {
		return os.MkdirAll(name, perm)
	}
	return d.MkdirAll(name)
}

func Remove(name string) error {
	d, z := cur()
	if z {
		return errRunOver
	}
	if d == nil {
		return os.Remove(name)
	}
	return d.Remove(name)
}

func RemoveAll(name string) error {
	d, z := cur()
	if z {
		return errRunOver
	}
	if d == nil {
		return os.RemoveAll(name)
	}
	return d.RemoveAll(name)
}

func Rename(from, to string) error {
	d, z := cur()
	if z {
		return errRunOver
	}
	if d == nil {
		return os.Rename(from, to)
	}
	return d.Rename(from, to)
}

func ReadDir(name string) ([]DirEntry, error) {
	d, z := cur()
	if z {
		return nil, errRunOver
	}
	if d == nil {
		return os.ReadDir(name)
	}
	return d.ReadDir(name)
}

func ReadFile(name string) ([]byte, error) {
	d, z := cur()
	if z {
		return nil, errRunOver
	}
	if d == nil {
		return os.ReadFile(name)
	}
	return d.ReadFile(name)
}

func WriteFile(name string, data []byte, perm FileMode) error {
	if disk.Load() == nil {
		return os.WriteFile(name, data, perm)
	}
	f, err := OpenFile(name, O_WRONLY|O_CREATE|O_TRUNC, perm)
	if err != nil {
		return err
	}
	_, err = f.Write(data)
	if err1 := f.Close(); err1 != nil && err == nil {
		err = err1
	}
	return err
}

func Truncate(name string, size int64) error {
	if disk.Load() == nil {
		return os.Truncate(name, size)
	}
	f, err := OpenFile(name, O_WRONLY, 0)
	if err != nil {
		return err
	}
	defer f.Close()
	return f.Truncate(size)
}

func Chmod(name string, mode FileMode) error {
	if d := disk.Load(); d != nil {
		if !d.Exists(name) {
			return &fs.PathError{Op: "chmod", Path: name, Err: syscall.ENOENT}
		}
		return nil
	}
	return os.Chmod(name, mode)
}

func Chtimes(name string, a, m time.Time) error {
	if d := disk.Load(); d != nil {
		return nil
	}
	return os.Chtimes(name, a, m)
}

func Getenv(key string) string {
	if d := disk.Load(); d != nil {
		if v, ok := d.Env[key]; ok {
			return v
		}
	}
	return os.Getenv(key)
}

func LookupEnv(key string) (string, bool) {
	if d := disk.Load(); d != nil {
		if v, ok := d.Env[key]; ok {
			return v, true
		}
	}
	return os.LookupEnv(key)
}

func Setenv(key, value string) error {
	if d := disk.Load(); d != nil {
		d.Env[key] = value
		return nil
	}
	return os.Setenv(key, value)
}

func TempDir() string {
	if disk.Load() != nil {
		return "/tmp"
	}
	return os.TempDir()
}

func MkdirTemp(dir, pattern string) (string, error) {
	if disk.Load() == nil {
		return os.MkdirTemp(dir, pattern)
	}
	if dir == "" {
		dir = "/tmp"
	}
	for i := 0; ; i++ {
		p := dir + "/" + pattern + itoa(i)
		if !disk.Load().Exists(p) {
			return p, MkdirAll(p, 0o700)
		}
	}
}

func itoa(i int) string {
	if i == 0 {
		return "0"
	}
	var b []byte
	for i > 0 {
		b = append([]byte{byte('0' + i%10)}, b...)
		i /= 10
	}
	return string(b)
}

// ExitPanic is the value Exit panics with under simulation.
type ExitPanic struct{ Code int }

func Exit(code int) {
	if disk.Load() != nil || simrt.Mode() != 0 {
		panic(ExitPanic{code})
	}
	os.Exit(code)
}

func IsNotExist(err error) bool   { return os.IsNotExist(err) }
func IsExist(err error) bool      { return os.IsExist(err) }
func IsPermission(err error) bool { return os.IsPermission(err) }
func IsTimeout(err error) bool    { return os.IsTimeout(err) }

var (
	ErrNotExist         = os.ErrNotExist
	ErrExist            = os.ErrExist
	ErrInvalid          = os.ErrInvalid
	ErrPermission       = os.ErrPermission
	ErrClosed           = os.ErrClosed
	ErrDeadlineExceeded = os.ErrDeadlineExceeded
	ErrProcessDone      = os.ErrProcessDone
	ErrNoDeadline       = os.ErrNoDeadline
)

var _ = errors.Is
