// Package simdisk is the in-memory file system of the simulation: a tree of
// directories and files, an operation log from which crash images are
// materialised, and a fault plan for I/O errors and short writes.
package simdisk

import (
	"io"
	"io/fs"
	"path"
	"sort"
	"strings"
	"sync"
	"syscall"
	"time"
)

// Log operation kinds.
const (
	OpMkdir = iota + 1
	OpCreate
	OpTrunc
	OpWrite
	OpRename
	OpRemove
	OpRemoveAll
	OpFsync
	OpClose
)

var opNames = map[int]string{OpMkdir: "mkdir", OpCreate: "create", OpTrunc: "trunc", OpWrite: "write",
	OpRename: "rename", OpRemove: "remove", OpRemoveAll: "removeall", OpFsync: "fsync", OpClose: "close"}

func OpName(k int) string { return opNames[k] }

// LogOp is one mutating file-system operation.
type LogOp struct {
	Kind int
	Path string // mkdir/create/rename(old)/remove
	To   string // rename(new)
	Ino  int    // create/trunc/write/fsync/close
	Off  int64  // write offset / trunc size
	Data []byte // write payload (private copy)
}

type node struct {
	ino      int
	dir      bool
	children map[string]*node
	data     []byte
	mtime    time.Time
	writers  int // open handles with write access
}

// Fault describes the failure of one mutating operation.
type Fault struct {
	Errno syscall.Errno // e.g. syscall.EIO, syscall.ENOSPC
	Short int           // for writes: number of bytes applied before failing (-1: none)
}

// Stats counts what happened on a disk.
type Stats struct {
	Ops          int // mutating operations issued
	Writes       int
	Fsyncs       int
	Renames      int
	Creates      int
	Removes      int
	Reads        int
	FaultsFired  map[string]int
	FiredSeqs    []int // sequence numbers of the operations that were failed
	MaxWriters   int   // max simultaneously open write handles on one file
	BytesWritten int64
	SilentDamage int // files damaged behind the writer's back (SetDamageOnClose)
	ReadFaults   int // reads that failed on purpose (SetReadFault)
}

// Disk is one incarnation's file system.
type Disk struct {
	mu            sync.Mutex
	root          *node
	nextIno       int
	base          *node // deep copy of root when logging started
	baseIno       int
	logging       bool
	log           []LogOp
	faults        map[int]Fault // keyed by mutating-op sequence number (0-based, counted in Stats.Ops)
	fullAt        int           // if >0: every write from op fullAt to fullEnd fails with ENOSPC
	fullEnd       int
	st            Stats
	lastFaultKind int
	lastFaultPath string
	Env           map[string]string
	readFaults map[int]syscall.Errno // see SetReadFault
	// damageSuffix/damageMode: see SetDamageOnClose
	damageSuffix string
	damageMode   int
	// OnOp, if set, is called (with the disk lock held) before each mutating op
	// with its sequence number and kind; used by harnesses to map ops to phases.
	OnOp func(seq int, kind int, p string)
}

// New returns an empty disk with logging enabled.
func New() *Disk {
	d := &Disk{root: &node{dir: true, children: map[string]*node{}}, nextIno: 1, Env: map[string]string{}}
	d.st.FaultsFired = map[string]int{}
	d.faults = map[int]Fault{}
	d.StartLog()
	return d
}

func cloneTree(n *node) *node {
	c := &node{ino: n.ino, dir: n.dir, mtime: n.mtime}
	if n.dir {
		c.children = make(map[string]*node, len(n.children))
		for k, v := range n.children {
			c.children[k] = cloneTree(v)
		}
	} else {
		c.data = append([]byte(nil), n.data...)
	}
	return c
}

// StartLog snapshots the current tree as the base of the operation log.
func (d *Disk) StartLog() {
	d.mu.Lock()
	defer d.mu.Unlock()
	d.base = cloneTree(d.root)
	d.baseIno = d.nextIno
	d.log = nil
	d.logging = true
}

// LogLen returns the number of logged operations.
func (d *Disk) LogLen() int {
	d.mu.Lock()
	defer d.mu.Unlock()
	return len(d.log)
}

// Log returns the logged operations (shared slices: do not modify).
func (d *Disk) Log() []LogOp {
	d.mu.Lock()
	defer d.mu.Unlock()
	return d.log[:len(d.log):len(d.log)]
}

// Stats returns a copy of the counters.
func (d *Disk) Stats() Stats {
	d.mu.Lock()
	defer d.mu.Unlock()
	s := d.st
	s.FaultsFired = map[string]int{}
	for k, v := range d.st.FaultsFired {
		s.FaultsFired[k] = v
	}
	s.FiredSeqs = append([]int(nil), d.st.FiredSeqs...)
	return s
}

// LastFault describes the most recent failed operation.
func (d *Disk) LastFault() (kind int, path string) {
	d.mu.Lock()
	defer d.mu.Unlock()
	return d.lastFaultKind, d.lastFaultPath
}

// OpCount returns the number of mutating operations issued so far.
func (d *Disk) OpCount() int {
	d.mu.Lock()
	defer d.mu.Unlock()
	return d.st.Ops
}

// SetFault makes the mutating operation with sequence number seq fail.
func (d *Disk) SetFault(seq int, f Fault) {
	d.mu.Lock()
	defer d.mu.Unlock()
	d.faults[seq] = f
}

// SetFull makes every data write with sequence number in [from,to) fail with ENOSPC.
func (d *Disk) SetFull(from, to int) {
	d.mu.Lock()
	defer d.mu.Unlock()
	d.fullAt, d.fullEnd = from, to
}

// ClearFaults removes all planned faults.
func (d *Disk) ClearFaults() {
	d.mu.Lock()
	defer d.mu.Unlock()
	d.faults = map[int]Fault{}
	d.readFaults = nil
	d.fullAt, d.fullEnd = 0, 0
}

// Clone returns an independent copy of the current tree (fresh log, no faults).
func (d *Disk) Clone() *Disk {
	d.mu.Lock()
	defer d.mu.Unlock()
	n := &Disk{root: cloneTree(d.root), nextIno: d.nextIno, Env: map[string]string{}}
	for k, v := range d.Env {
		n.Env[k] = v
	}
	n.st.FaultsFired = map[string]int{}
	n.faults = map[int]Fault{}
	n.base = cloneTree(n.root)
	n.baseIno = n.nextIno
	n.logging = true
	return n
}

// LoseUnsynced as the torn argument of ImageAt: see there.
const LoseUnsynced = -2

// ImageAt materialises the crash image in which exactly the first j logged
// operations are persistent and, if torn >= 0 and operation j is a write, the
// first torn bytes of that write as well.
func (d *Disk) ImageAt(j int, torn int) *Disk {
	d.mu.Lock()
	defer d.mu.Unlock()
	n := &Disk{root: cloneTree(d.base), nextIno: d.baseIno, Env: map[string]string{}}
	for k, v := range d.Env {
		n.Env[k] = v
	}
	n.st.FaultsFired = map[string]int{}
	n.faults = map[int]Fault{}
	inos := map[int]*node{}
	var index func(x *node)
	index = func(x *node) {
		inos[x.ino] = x
		for _, c := range x.children {
			index(c)
		}
	}
	index(n.root)
	if j > len(d.log) {
		j = len(d.log)
	}
	apply := func(op *LogOp, limit int) {
		switch op.Kind {
		case OpMkdir:
			n.mkdirAllLocked(op.Path)
		case OpCreate:
			dir, name := n.lookupParent(op.Path)
			if dir == nil {
				return
			}
			f := &node{ino: op.Ino}
			dir.children[name] = f
			inos[op.Ino] = f
			if op.Ino >= n.nextIno {
				n.nextIno = op.Ino + 1
			}
		case OpTrunc:
			if f := inos[op.Ino]; f != nil {
				f.data = resize(f.data, op.Off)
			}
		case OpWrite:
			if f := inos[op.Ino]; f != nil {
				data := op.Data
				if limit >= 0 && limit < len(data) {
					data = data[:limit]
				}
				f.data = writeAt(f.data, op.Off, data)
			}
		case OpRename:
			n.renameLocked(op.Path, op.To)
		case OpRemove:
			dir, name := n.lookupParent(op.Path)
			if dir != nil {
				delete(dir.children, name)
			}
		case OpRemoveAll:
			dir, name := n.lookupParent(op.Path)
			if dir != nil {
				delete(dir.children, name)
			}
		}
	}
	// torn == LoseUnsynced: the other extreme a crash may produce - every name-space operation (create, rename,
	// remove) of the prefix is persistent, but file data written after the file's last fsync is not (a journalled
	// file system orders its metadata, not the data of files nobody synced)
	lastSync := map[int]int{}
	if torn == LoseUnsynced {
		for i := 0; i < j; i++ {
			if d.log[i].Kind == OpFsync {
				lastSync[d.log[i].Ino] = i
			}
		}
	}
	for i := 0; i < j; i++ {
		if torn == LoseUnsynced && (d.log[i].Kind == OpWrite || d.log[i].Kind == OpTrunc) {
			if f, ok := lastSync[d.log[i].Ino]; !ok || f < i {
				continue
			}
		}
		apply(&d.log[i], -1)
	}
	if torn >= 0 && j < len(d.log) && d.log[j].Kind == OpWrite {
		apply(&d.log[j], torn)
	}
	n.base = cloneTree(n.root)
	n.baseIno = n.nextIno
	n.logging = true
	return n
}

func resize(b []byte, size int64) []byte {
	if int64(len(b)) >= size {
		return b[:size]
	}
	return append(b, make([]byte, size-int64(len(b)))...)
}

func writeAt(b []byte, off int64, data []byte) []byte {
	end := off + int64(len(data))
	if int64(len(b)) < end {
		b = append(b, make([]byte, end-int64(len(b)))...)
	}
	copy(b[off:end], data)
	return b
}

func split(p string) []string {
	p = path.Clean("/" + strings.ReplaceAll(p, "\\", "/"))
	if p == "/" {
		return nil
	}
	return strings.Split(p[1:], "/")
}

func (d *Disk) lookup(p string) *node {
	cur := d.root
	for _, part := range split(p) {
		if !cur.dir {
			return nil
		}
		nx := cur.children[part]
		if nx == nil {
			return nil
		}
		cur = nx
	}
	return cur
}

func (d *Disk) lookupParent(p string) (*node, string) {
	parts := split(p)
	if len(parts) == 0 {
		return nil, ""
	}
	cur := d.root
	for _, part := range parts[:len(parts)-1] {
		nx := cur.children[part]
		if nx == nil || !nx.dir {
			return nil, ""
		}
		cur = nx
	}
	return cur, parts[len(parts)-1]
}

func (d *Disk) mkdirAllLocked(p string) error {
	cur := d.root
	for _, part := range split(p) {
		nx := cur.children[part]
		if nx == nil {
			nx = &node{ino: d.nextIno, dir: true, children: map[string]*node{}, mtime: time.Now()}
			d.nextIno++
			cur.children[part] = nx
		} else if !nx.dir {
			return syscall.ENOTDIR
		}
		cur = nx
	}
	return nil
}

func (d *Disk) renameLocked(from, to string) error {
	fd, fn := d.lookupParent(from)
	if fd == nil {
		return syscall.ENOENT
	}
	src := fd.children[fn]
	if src == nil {
		return syscall.ENOENT
	}
	td, tn := d.lookupParent(to)
	if td == nil {
		return syscall.ENOENT
	}
	if dst := td.children[tn]; dst != nil {
		if dst.dir && !src.dir {
			return syscall.EISDIR
		}
		if !dst.dir && src.dir {
			return syscall.ENOTDIR
		}
		if dst.dir && len(dst.children) > 0 {
			return syscall.ENOTEMPTY
		}
	}
	delete(fd.children, fn)
	td.children[tn] = src
	return nil
}

// begin accounts one mutating op and returns the fault planned for it, if any.
func (d *Disk) begin(kind int, p string) (Fault, bool) {
	seq := d.st.Ops
	d.st.Ops++
	if d.OnOp != nil {
		d.OnOp(seq, kind, p)
	}
	if f, ok := d.faults[seq]; ok {
		d.st.FaultsFired[opNames[kind]+":"+f.Errno.Error()]++
		d.st.FiredSeqs = append(d.st.FiredSeqs, seq)
		d.lastFaultKind, d.lastFaultPath = kind, p
		return f, true
	}
	if d.fullEnd > d.fullAt && seq >= d.fullAt && seq < d.fullEnd && (kind == OpWrite || kind == OpCreate || kind == OpMkdir) {
		d.st.FaultsFired[opNames[kind]+":full"]++
		d.st.FiredSeqs = append(d.st.FiredSeqs, seq)
		d.lastFaultKind, d.lastFaultPath = kind, p
		return Fault{Errno: syscall.ENOSPC, Short: -1}, true
	}
	return Fault{}, false
}

func (d *Disk) logOp(op LogOp) {
	if d.logging {
		d.log = append(d.log, op)
	}
}

func perr(op, p string, e error) error { return &fs.PathError{Op: op, Path: p, Err: e} }

// ---------------------------------------------------------------------------
// path operations

func (d *Disk) Mkdir(p string) error {
	d.mu.Lock()
	defer d.mu.Unlock()
	if f, ok := d.begin(OpMkdir, p); ok {
		return perr("mkdir", p, f.Errno)
	}
	dir, name := d.lookupParent(p)
	if dir == nil {
		return perr("mkdir", p, syscall.ENOENT)
	}
	if dir.children[name] != nil {
		return perr("mkdir", p, syscall.EEXIST)
	}
	dir.children[name] = &node{ino: d.nextIno, dir: true, children: map[string]*node{}, mtime: time.Now()}
	d.nextIno++
	d.logOp(LogOp{Kind: OpMkdir, Path: p})
	return nil
}

func (d *Disk) MkdirAll(p string) error {
	d.mu.Lock()
	defer d.mu.Unlock()
	if n := d.lookup(p); n != nil {
		if n.dir {
			return nil
		}
		return perr("mkdir", p, syscall.ENOTDIR)
	}
	if f, ok := d.begin(OpMkdir, p); ok {
		return perr("mkdir", p, f.Errno)
	}
	if err := d.mkdirAllLocked(p); err != nil {
		return perr("mkdir", p, err)
	}
	d.logOp(LogOp{Kind: OpMkdir, Path: p})
	return nil
}

func (d *Disk) Remove(p string) error {
	d.mu.Lock()
	defer d.mu.Unlock()
	dir, name := d.lookupParent(p)
	if dir == nil || dir.children[name] == nil {
		return perr("remove", p, syscall.ENOENT)
	}
	n := dir.children[name]
	if n.dir && len(n.children) > 0 {
		return perr("remove", p, syscall.ENOTEMPTY)
	}
	if f, ok := d.begin(OpRemove, p); ok {
		return perr("remove", p, f.Errno)
	}
	delete(dir.children, name)
	d.st.Removes++
	d.logOp(LogOp{Kind: OpRemove, Path: p})
	return nil
}

func (d *Disk) RemoveAll(p string) error {
	d.mu.Lock()
	defer d.mu.Unlock()
	dir, name := d.lookupParent(p)
	if dir == nil || dir.children[name] == nil {
		return nil
	}
	if f, ok := d.begin(OpRemoveAll, p); ok {
		return perr("unlinkat", p, f.Errno)
	}
	delete(dir.children, name)
	d.st.Removes++
	d.logOp(LogOp{Kind: OpRemoveAll, Path: p})
	return nil
}

func (d *Disk) Rename(from, to string) error {
	d.mu.Lock()
	defer d.mu.Unlock()
	if d.lookup(from) == nil {
		return &linkError{"rename", from, to, syscall.ENOENT}
	}
	if f, ok := d.begin(OpRename, from); ok {
		return &linkError{"rename", from, to, f.Errno}
	}
	if err := d.renameLocked(from, to); err != nil {
		return &linkError{"rename", from, to, err}
	}
	d.st.Renames++
	d.logOp(LogOp{Kind: OpRename, Path: from, To: to})
	return nil
}

type linkError struct {
	Op, Old, New string
	Err          error
}

func (e *linkError) Error() string { return e.Op + " " + e.Old + " " + e.New + ": " + e.Err.Error() }
func (e *linkError) Unwrap() error { return e.Err }

// Info implements fs.FileInfo and fs.DirEntry.
type Info struct {
	name  string
	size  int64
	dir   bool
	mtime time.Time
}

func (i *Info) Name() string       { return i.name }
func (i *Info) Size() int64        { return i.size }
func (i *Info) IsDir() bool        { return i.dir }
func (i *Info) ModTime() time.Time { return i.mtime }
func (i *Info) Sys() any           { return nil }
func (i *Info) Mode() fs.FileMode {
	if i.dir {
		return fs.ModeDir | 0o755
	}
	return 0o644
}
func (i *Info) Type() fs.FileMode          { return i.Mode().Type() }
func (i *Info) Info() (fs.FileInfo, error) { return i, nil }

func infoOf(name string, n *node) *Info {
	return &Info{name: name, size: int64(len(n.data)), dir: n.dir, mtime: n.mtime}
}

func (d *Disk) Stat(p string) (fs.FileInfo, error) {
	d.mu.Lock()
	defer d.mu.Unlock()
	d.st.Reads++
	n := d.lookup(p)
	if n == nil {
		return nil, perr("stat", p, syscall.ENOENT)
	}
	return infoOf(path.Base(path.Clean("/"+p)), n), nil
}

func (d *Disk) ReadDir(p string) ([]fs.DirEntry, error) {
	d.mu.Lock()
	defer d.mu.Unlock()
	d.st.Reads++
	n := d.lookup(p)
	if n == nil {
		return nil, perr("open", p, syscall.ENOENT)
	}
	if !n.dir {
		return nil, perr("readdirent", p, syscall.ENOTDIR)
	}
	names := make([]string, 0, len(n.children))
	for k := range n.children {
		names = append(names, k)
	}
	sort.Strings(names)
	out := make([]fs.DirEntry, 0, len(names))
	for _, k := range names {
		out = append(out, infoOf(k, n.children[k]))
	}
	return out, nil
}

// ReadFile returns a copy of the file's bytes.
func (d *Disk) ReadFile(p string) ([]byte, error) {
	d.mu.Lock()
	defer d.mu.Unlock()
	if e, ok := d.readFaults[d.st.Reads]; ok {
		d.st.Reads++
		d.st.ReadFaults++
		d.st.FaultsFired["read:"+e.Error()]++
		return nil, perr("read", p, e)
	}
	d.st.Reads++
	n := d.lookup(p)
	if n == nil {
		return nil, perr("open", p, syscall.ENOENT)
	}
	if n.dir {
		return nil, perr("read", p, syscall.EISDIR)
	}
	return append([]byte{}, n.data...), nil
}

// SetReadFault makes the read with the given index (Stats().Reads at the time it is issued: whole-file reads and
// reads through a handle count alike) fail with errno and return no data.
func (d *Disk) SetReadFault(index int, errno syscall.Errno) {
	d.mu.Lock()
	defer d.mu.Unlock()
	if d.readFaults == nil {
		d.readFaults = map[int]syscall.Errno{}
	}
	d.readFaults[index] = errno
}

// PutFile installs a file directly (not logged as a system-under-test
// operation unless logging is on; used by harnesses to plant files).
func (d *Disk) PutFile(p string, data []byte) {
	d.mu.Lock()
	defer d.mu.Unlock()
	dirp := path.Dir(path.Clean("/" + p))
	d.mkdirAllLocked(dirp)
	dir, name := d.lookupParent(p)
	f := &node{ino: d.nextIno, data: append([]byte{}, data...), mtime: time.Now()}
	d.nextIno++
	dir.children[name] = f
	if d.logging {
		d.log = append(d.log, LogOp{Kind: OpMkdir, Path: dirp}, LogOp{Kind: OpCreate, Path: p, Ino: f.ino},
			LogOp{Kind: OpWrite, Ino: f.ino, Data: append([]byte{}, data...)})
	}
}

// Exists reports whether p exists.
func (d *Disk) Exists(p string) bool {
	d.mu.Lock()
	defer d.mu.Unlock()
	return d.lookup(p) != nil
}

// Walk lists every file (not directory) path under root in lexical order.
func (d *Disk) Walk(root string) []string {
	d.mu.Lock()
	defer d.mu.Unlock()
	var out []string
	var rec func(p string, n *node)
	rec = func(p string, n *node) {
		if !n.dir {
			out = append(out, p)
			return
		}
		names := make([]string, 0, len(n.children))
		for k := range n.children {
			names = append(names, k)
		}
		sort.Strings(names)
		for _, k := range names {
			rec(path.Join(p, k), n.children[k])
		}
	}
	if n := d.lookup(root); n != nil {
		rec(path.Clean("/"+root), n)
	}
	return out
}

// ---------------------------------------------------------------------------
// handles

// Handle is an open file.
type Handle struct {
	d      *Disk
	n      *node
	name   string
	pos    int64
	write  bool
	read   bool
	app    bool
	closed bool
	dirPos int
}

const (
	O_RDONLY = syscall.O_RDONLY
	O_WRONLY = syscall.O_WRONLY
	O_RDWR   = syscall.O_RDWR
	O_APPEND = syscall.O_APPEND
	O_CREATE = syscall.O_CREAT
	O_EXCL   = syscall.O_EXCL
	O_TRUNC  = syscall.O_TRUNC
)

func (d *Disk) OpenFile(p string, flag int) (*Handle, error) {
	d.mu.Lock()
	defer d.mu.Unlock()
	acc := flag & (O_RDONLY | O_WRONLY | O_RDWR)
	h := &Handle{d: d, name: p, read: acc == O_RDONLY || acc == O_RDWR, write: acc == O_WRONLY || acc == O_RDWR, app: flag&O_APPEND != 0}
	n := d.lookup(p)
	if n == nil {
		if flag&O_CREATE == 0 {
			d.st.Reads++
			return nil, perr("open", p, syscall.ENOENT)
		}
		dir, name := d.lookupParent(p)
		if dir == nil {
			return nil, perr("open", p, syscall.ENOENT)
		}
		if f, ok := d.begin(OpCreate, p); ok {
			return nil, perr("open", p, f.Errno)
		}
		n = &node{ino: d.nextIno, mtime: time.Now()}
		d.nextIno++
		dir.children[name] = n
		d.st.Creates++
		d.logOp(LogOp{Kind: OpCreate, Path: p, Ino: n.ino})
	} else {
		if flag&O_CREATE != 0 && flag&O_EXCL != 0 {
			return nil, perr("open", p, syscall.EEXIST)
		}
		if n.dir {
			if h.write {
				return nil, perr("open", p, syscall.EISDIR)
			}
		} else if flag&O_TRUNC != 0 && h.write {
			if f, ok := d.begin(OpTrunc, p); ok {
				return nil, perr("open", p, f.Errno)
			}
			n.data = n.data[:0]
			d.logOp(LogOp{Kind: OpTrunc, Ino: n.ino, Off: 0})
		} else {
			d.st.Reads++
		}
	}
	h.n = n
	if h.write {
		n.writers++
		if n.writers > d.st.MaxWriters {
			d.st.MaxWriters = n.writers
		}
	}
	return h, nil
}

func (h *Handle) Name() string { return h.name }

func (h *Handle) Read(b []byte) (int, error) {
	h.d.mu.Lock()
	defer h.d.mu.Unlock()
	if h.closed {
		return 0, perr("read", h.name, fs.ErrClosed)
	}
	if h.n.dir {
		return 0, perr("read", h.name, syscall.EISDIR)
	}
	if e, ok := h.d.readFaults[h.d.st.Reads]; ok {
		h.d.st.Reads++
		h.d.st.ReadFaults++
		h.d.st.FaultsFired["read:"+e.Error()]++
		return 0, perr("read", h.name, e)
	}
	h.d.st.Reads++
	if len(b) == 0 {
		return 0, nil
	}
	if h.pos >= int64(len(h.n.data)) {
		return 0, io.EOF
	}
	n := copy(b, h.n.data[h.pos:])
	h.pos += int64(n)
	return n, nil
}

func (h *Handle) ReadAt(b []byte, off int64) (int, error) {
	h.d.mu.Lock()
	defer h.d.mu.Unlock()
	if h.closed {
		return 0, perr("read", h.name, fs.ErrClosed)
	}
	h.d.st.Reads++
	if off >= int64(len(h.n.data)) {
		return 0, io.EOF
	}
	n := copy(b, h.n.data[off:])
	if n < len(b) {
		return n, io.EOF
	}
	return n, nil
}

func (h *Handle) writeLocked(b []byte, off int64) (int, error) {
	if h.closed {
		return 0, perr("write", h.name, fs.ErrClosed)
	}
	if !h.write {
		return 0, perr("write", h.name, syscall.EBADF)
	}
	d := h.d
	f, faulted := d.begin(OpWrite, h.name)
	data := b
	var err error
	if faulted {
		k := f.Short
		if k < 0 {
			k = 0
		}
		if k > len(b) {
			k = len(b)
		}
		data = b[:k]
		err = perr("write", h.name, f.Errno)
	}
	d.st.Writes++
	if len(data) > 0 {
		h.n.data = writeAt(h.n.data, off, data)
		h.n.mtime = time.Now()
		d.st.BytesWritten += int64(len(data))
		d.logOp(LogOp{Kind: OpWrite, Ino: h.n.ino, Off: off, Data: append([]byte(nil), data...)})
	}
	return len(data), err
}

func (h *Handle) Write(b []byte) (int, error) {
	h.d.mu.Lock()
	defer h.d.mu.Unlock()
	if h.app {
		h.pos = int64(len(h.n.data))
	}
	n, err := h.writeLocked(b, h.pos)
	h.pos += int64(n)
	return n, err
}

func (h *Handle) WriteAt(b []byte, off int64) (int, error) {
	h.d.mu.Lock()
	defer h.d.mu.Unlock()
	return h.writeLocked(b, off)
}

func (h *Handle) Seek(off int64, whence int) (int64, error) {
	h.d.mu.Lock()
	defer h.d.mu.Unlock()
	if h.closed {
		return 0, perr("seek", h.name, fs.ErrClosed)
	}
	var np int64
	switch whence {
	case io.SeekStart:
		np = off
	case io.SeekCurrent:
		np = h.pos + off
	case io.SeekEnd:
		np = int64(len(h.n.data)) + off
	default:
		return 0, perr("seek", h.name, syscall.EINVAL)
	}
	if np < 0 {
		return 0, perr("seek", h.name, syscall.EINVAL)
	}
	h.pos = np
	return np, nil
}

func (h *Handle) Truncate(size int64) error {
	h.d.mu.Lock()
	defer h.d.mu.Unlock()
	if h.closed {
		return perr("truncate", h.name, fs.ErrClosed)
	}
	if f, ok := h.d.begin(OpTrunc, h.name); ok {
		return perr("truncate", h.name, f.Errno)
	}
	h.n.data = resize(h.n.data, size)
	h.d.logOp(LogOp{Kind: OpTrunc, Ino: h.n.ino, Off: size})
	return nil
}

func (h *Handle) Sync() error {
	h.d.mu.Lock()
	defer h.d.mu.Unlock()
	if h.closed {
		return perr("sync", h.name, fs.ErrClosed)
	}
	if f, ok := h.d.begin(OpFsync, h.name); ok {
		return perr("sync", h.name, f.Errno)
	}
	h.d.st.Fsyncs++
	h.d.logOp(LogOp{Kind: OpFsync, Ino: h.n.ino})
	return nil
}

func (h *Handle) Close() error {
	h.d.mu.Lock()
	defer h.d.mu.Unlock()
	if h.closed {
		return perr("close", h.name, fs.ErrClosed)
	}
	h.closed = true
	if h.write {
		h.n.writers--
		h.d.logOp(LogOp{Kind: OpClose, Ino: h.n.ino})
		if h.d.damageSuffix != "" && strings.HasSuffix(h.name, h.d.damageSuffix) && len(h.n.data) > 80 {
			// the medium loses or garbles what was written, and nobody is told (bad sector, lying disk): every
			// write, the fsync and this close have all reported success
			switch h.d.damageMode {
			case 0:
				h.n.data = h.n.data[:80] // everything after the first bytes is gone
			case 1:
				h.n.data[len(h.n.data)/2] ^= 0x5a
			default:
				for i := len(h.n.data) / 2; i < len(h.n.data) && i < len(h.n.data)/2+512; i++ {
					h.n.data[i] = 0
				}
			}
			h.d.st.SilentDamage++
		}
	}
	return nil
}

// SetDamageOnClose makes the disk silently damage every file whose name ends in suffix at the moment its writer
// closes it (mode 0: cut after 80 bytes, 1: one flipped byte in the middle, 2: a zeroed 512-byte run). "" switches it off.
func (d *Disk) SetDamageOnClose(suffix string, mode int) {
	d.mu.Lock()
	defer d.mu.Unlock()
	d.damageSuffix, d.damageMode = suffix, mode
}

func (h *Handle) Stat() (fs.FileInfo, error) {
	h.d.mu.Lock()
	defer h.d.mu.Unlock()
	if h.closed {
		return nil, perr("stat", h.name, fs.ErrClosed)
	}
	return infoOf(path.Base(path.Clean("/"+h.name)), h.n), nil
}

// ReadDir reads directory entries (n <= 0: all remaining).
func (h *Handle) ReadDir(n int) ([]fs.DirEntry, error) {
	h.d.mu.Lock()
	defer h.d.mu.Unlock()
	if !h.n.dir {
		return nil, perr("readdirent", h.name, syscall.ENOTDIR)
	}
	names := make([]string, 0, len(h.n.children))
	for k := range h.n.children {
		names = append(names, k)
	}
	sort.Strings(names)
	if h.dirPos > len(names) {
		h.dirPos = len(names)
	}
	names = names[h.dirPos:]
	if n > 0 && len(names) > n {
		names = names[:n]
	}
	h.dirPos += len(names)
	out := make([]fs.DirEntry, 0, len(names))
	for _, k := range names {
		out = append(out, infoOf(k, h.n.children[k]))
	}
	if n > 0 && len(out) == 0 {
		return out, io.EOF
	}
	return out, nil
}

// OpenWriters reports how many write handles are open on p right now.
func (d *Disk) OpenWriters(p string) int {
	d.mu.Lock()
	defer d.mu.Unlock()
	n := d.lookup(p)
	if n == nil {
		return 0
	}
	return n.writers
}
