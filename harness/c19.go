package zzharness

import (
	"google.golang.org/protobuf/types/known/timestamppb"
	"context"
	"fmt"
	"os"
	"sort"
	"strings"
	"testing"
	"time"

	hydrapb "github.com/hydraide/hydraide/sdk/go/hydraidego/v3/hydraidepbgo"
	"github.com/hydraide/hydraide/app/zzsim/simdisk"
	"github.com/hydraide/hydraide/app/zzsim/simrt"
	"google.golang.org/grpc/metadata"
)

// C19 — subscribers get each committed change once, in order, with correct time.
//
// Subscribers open event streams (a fake grpc.ServerStream that records every
// message with the simulator's event sequence number and simulated time, and
// contains a scheduling point so that concurrent sends can overlap as they
// could on a real stream) around concurrent writers.

func init() {
	register(&Property{
		ID:    "C19",
		Level: "exploration",
		Rule: "cases = 1..2 subscribers (opened before the writers or after a seeded delay, closed at a seeded instant or at the end) x 1..3 writers x <=20 operations on 1..3 keys: Set new / Set changed value / Set identical value (no-op) / IncrementInt64 / Delete / ShiftByKeys / Get; in-memory or persistent swamp, write interval 0/1s; seeded preemption + stalls; " +
			"oracle per subscriber and key: events == acknowledged changes that fall entirely inside the subscription window (exactly once, none for no-ops and reads, payload = committed value, order consistent with the real-time order of the requests), event time inside the simulated interval of its request, no overlapping sends on one stream; " +
			"non-trivial = at least one event delivered while another writer was inside a request; distinct = hash of the context-switch trace",
		Gen: genC19,
		Run: runC19,
		Sim: true,
		Assumptions: []string{"a change whose request overlaps the opening or closing of a subscription may or may not be delivered to it", "values are unique per write, so every event is attributable to one request"},
		Real:        append([]string{"gateway.SubscribeToEvents", "hydra.eventCallbackFunction fan-out", "swamp.sendEventToHydra / sendDeletedEventToClient"}, gwReal...),
		Stub:        append([]string{"grpc.ServerStream (recording fake with a scheduling point inside SendMsg)"}, gwStub...),
	})
}

// ops: K="sub" A=[startMs, endMs(0=until end)], others C=writer: K in set(new unique)/same/inc/del/shift/get A=[key, waitMs]
func genC19(seed uint64, tier string) Case {
	r := newRng(seed, "c19")
	c := Case{Prop: "C19", Seed: seed, Cfg: map[string]int64{}}
	c.Cfg["write_interval"] = int64(r.intn(2))
	c.Cfg["mem"] = int64(r.pick(1, 1))
	nsub := 1 + r.intn(2)
	for i := 0; i < nsub; i++ {
		st, en := int64(0), int64(0)
		if r.chance(1, 3) {
			st = int64(1 + r.intn(30))
		}
		if r.chance(1, 3) {
			en = st + int64(5+r.intn(40))
		}
		c.Ops = append(c.Ops, Op{C: 100 + i, K: "sub", A: []int64{st, en}})
	}
	nw := 1 + r.intn(3)
	nkeys := 1 + r.intn(3)
	total := 2 + r.intn(19)
	for i := 0; i < total; i++ {
		w := r.intn(nw)
		key := int64(r.intn(nkeys))
		wait := []int64{0, 0, 0, 1, 3, 10}[r.intn(6)]
		kind := []string{"set", "set", "set", "same", "inc", "inc", "del", "shift", "get"}[r.intn(9)]
		a := []int64{key, wait}
		if kind == "set" && r.chance(1, 3) {
			// the save also carries metadata (who/when/expiry): a later identical save without metadata is still a no-op
			a = append(a, 1)
		}
		c.Ops = append(c.Ops, Op{C: w, K: kind, A: a})
	}
	c.Sched = genSched(r)
	if r.chance(1, 3) {
		c.Sched.StallPPM = 2_000
	}
	return c
}

type evRec struct {
	seq    int64
	at     time.Duration
	status hydrapb.Status_Code
	key    string
	val    int64
	hasVal bool
	evTime time.Time
}

type fakeEventStream struct {
	ctx     context.Context
	start   time.Time
	events  []evRec
	active  int
	overlap bool
}

func (f *fakeEventStream) SetHeader(metadata.MD) error  { return nil }
func (f *fakeEventStream) SendHeader(metadata.MD) error { return nil }
func (f *fakeEventStream) SetTrailer(metadata.MD)       {}
func (f *fakeEventStream) Context() context.Context     { return f.ctx }
func (f *fakeEventStream) RecvMsg(m any) error          { return nil }
func (f *fakeEventStream) Send(m *hydrapb.SubscribeToEventsResponse) error {
	return f.SendMsg(m)
}
func (f *fakeEventStream) SendMsg(m any) error {
	f.active++
	if f.active > 1 {
		f.overlap = true
	}
	seq := simrt.EventSeq() // a real SendMsg is not atomic: other goroutines may run here
	if f.active > 1 {
		f.overlap = true
	}
	r := m.(*hydrapb.SubscribeToEventsResponse)
	e := evRec{seq: seq, at: time.Since(f.start), status: r.Status}
	tr := r.Treasure
	if r.Status == hydrapb.Status_DELETED {
		tr = r.DeletedTreasure
	}
	if tr != nil {
		e.key = tr.Key
		if tr.Int64Val != nil {
			e.val, e.hasVal = *tr.Int64Val, true
		}
	}
	if r.EventTime != nil {
		e.evTime = r.EventTime.AsTime()
	}
	f.events = append(f.events, e)
	f.active--
	return nil
}

type chg struct {
	kind      string
	key       string
	call, ret int64
	t0, t1    time.Time
	status    string // NEW UPDATED DELETED NONE
	val       int64
}

func runC19(t *testing.T, c Case) (res Result) {
	swamp := "verif/per/events"
	if c.cfg("mem", 0) == 1 {
		swamp = "verif/mem/events"
	}
	wi := c.cfg("write_interval", 1)
	type subState struct {
		st                   *fakeEventStream
		openSeq, closeSeq    int64
		startMs, endMs       int64
	}
	var subs []*subState
	var changes []chg
	stuck := false
	panicked := ""
	out := runSim(t, c.Sched, func() {
		disk := simdisk.New()
		srv := startServer(disk, 3600, wi)
		gw := srv.gw
		root := &gwClient{srv: srv, island: 1, timeout: 120 * time.Second}
		root.register("verif/per/*", false, 3600, wi)
		root.register("verif/mem/*", true, 3600, 0)
		sv := "anchor"
		root.set(swamp, []*hydrapb.KeyValuePair{{Key: "anchor", StringVal: &sv}}, true, true)
		start := time.Now()
		var ids []int32
		var cancels []context.CancelFunc
		for _, op := range c.Ops {
			if op.K != "sub" {
				continue
			}
			op := op
			ctx, cancel := context.WithCancel(context.Background())
			s := &subState{st: &fakeEventStream{ctx: ctx, start: start}, startMs: op.A[0], endMs: op.A[1], closeSeq: 1 << 62}
			subs = append(subs, s)
			cancels = append(cancels, cancel)
			ids = append(ids, simrt.GoID(func() {
				if s.startMs > 0 {
					simrt.Sleep(time.Duration(s.startMs) * time.Millisecond)
				}
				gw.SubscribeToEvents(&hydrapb.SubscribeToEventsRequest{IslandID: 1, SwampName: swamp}, s.st)
			}))
			// the subscription is certainly active once the handler goroutine is blocked waiting for the end of the stream
			id := ids[len(ids)-1]
			simrt.GoID(func() {
				for !simrt.RawBlocked(id) && !simrt.GDone(id) {
					simrt.Sleep(time.Millisecond)
				}
				s.openSeq = simrt.EventSeq()
				if s.endMs > 0 {
					simrt.Sleep(time.Duration(s.endMs-s.startMs) * time.Millisecond)
					s.closeSeq = simrt.EventSeq()
					cancel()
				}
			})
		}
		byW := map[int][]Op{}
		maxW := 0
		for _, op := range c.Ops {
			if op.K == "sub" {
				continue
			}
			byW[op.C] = append(byW[op.C], op)
			if op.C > maxW {
				maxW = op.C
			}
		}
		uniq := int64(0)
		lastVal := map[string]int64{}
		var wids []int32
		for w := 0; w <= maxW; w++ {
			w := w
			ops := byW[w]
			if len(ops) == 0 {
				continue
			}
			wids = append(wids, simrt.GoID(func() {
				for _, op := range ops {
					if op.A[1] > 0 {
						simrt.Sleep(time.Duration(op.A[1]) * time.Millisecond)
					}
					key := fmt.Sprintf("k%d", op.A[0])
					ch := chg{kind: op.K, key: key, status: "NONE"}
					ch.call, ch.t0 = simrt.EventSeq(), time.Now()
					switch op.K {
					case "set", "same":
						uniq++
						val := uniq*1000 + int64(w)
						if op.K == "same" {
							if v, ok := lastVal[key]; ok {
								val = v
							}
						}
						kv := &hydrapb.KeyValuePair{Key: key, Int64Val: &val}
						if op.K == "set" && len(op.A) > 2 && op.A[2] == 1 {
							by := "writer"
							kv.UpdatedBy, kv.CreatedBy = &by, &by
							kv.UpdatedAt = timestamppb.New(start.Add(time.Hour))
							kv.CreatedAt = timestamppb.New(start.Add(time.Hour))
							kv.ExpiredAt = timestamppb.New(start.Add(100 * time.Hour))
						}
						resp, err := gw.Set(ctxBg, &hydrapb.SetRequest{Swamps: []*hydrapb.SwampRequest{{IslandID: 1, SwampName: swamp, CreateIfNotExist: true, Overwrite: true,
							KeyValues: []*hydrapb.KeyValuePair{kv}}}})
						if err == nil && resp != nil && len(resp.Swamps) == 1 && len(resp.Swamps[0].KeysAndStatuses) == 1 {
							ch.status = resp.Swamps[0].KeysAndStatuses[0].Status.String()
							ch.val = val
							lastVal[key] = val
						}
					case "inc":
						resp, err := gw.IncrementInt64(ctxBg, &hydrapb.IncrementInt64Request{IslandID: 1, SwampName: swamp, Key: key, IncrementBy: 1})
						if err == nil && resp != nil && resp.IsIncremented {
							ch.status, ch.val = "CHANGED", resp.Value
							lastVal[key] = resp.Value
						}
					case "del":
						resp, err := gw.Delete(ctxBg, &hydrapb.DeleteRequest{Swamps: []*hydrapb.DeleteRequest_SwampKeys{{IslandID: 1, SwampName: swamp, Keys: []string{key}}}})
						if err == nil && resp != nil && len(resp.Responses) == 1 && len(resp.Responses[0].KeyStatuses) == 1 && resp.Responses[0].KeyStatuses[0].Status == hydrapb.Status_DELETED {
							ch.status = "DELETED"
							delete(lastVal, key)
						}
					case "shift":
						resp, err := gw.ShiftByKeys(ctxBg, &hydrapb.ShiftByKeysRequest{IslandID: 1, SwampName: swamp, Keys: []string{key}})
						if err == nil && resp != nil && len(resp.Treasures) == 1 {
							ch.status = "DELETED"
							delete(lastVal, key)
						}
					case "get":
						gw.Get(ctxBg, &hydrapb.GetRequest{Swamps: []*hydrapb.GetSwamp{{IslandID: 1, SwampName: swamp, Keys: []string{key}}}})
					}
					ch.ret, ch.t1 = simrt.EventSeq(), time.Now()
					changes = append(changes, ch)
				}
			}))
		}
		if !simrt.JoinIDs(wids, 10*time.Minute) {
			stuck = true
			return
		}
		simrt.Sleep(50 * time.Millisecond)
		for i, s := range subs {
			if s.closeSeq == 1<<62 {
				s.closeSeq = simrt.EventSeq()
				cancels[i]()
			}
		}
		if !simrt.JoinIDs(ids, 2*time.Minute) {
			stuck = true
		}
		if e := srv.logs.find("grpc gateway panic"); e != "" {
			panicked = e
		}
	})
	res.SimNanos = out.stats.SimNanos
	res.TraceHash = out.stats.Hash
	res.PreemptSteps = out.stats.PreemptSteps
	res.count("sched_steps", out.stats.Steps)
	res.count("preemptions", out.stats.Preemptions)
	fail := func(x Result) Result {
		x.TraceHash, x.PreemptSteps, x.SimNanos, x.Counters = res.TraceHash, res.PreemptSteps, res.SimNanos, res.Counters
		return x
	}
	if out.rootPanic != "" {
		return fail(violation("harness_panic", "root: %s", out.rootPanic))
	}
	if out.escaped != "" {
		return fail(violation("server_goroutine_panic", "a server goroutine panicked: %s", oneLine(out.escaped, 400)))
	}
	if panicked != "" {
		return fail(violation("request_panicked", "a handler panicked: %s", oneLine(panicked, 400)))
	}
	if out.aborted || out.stats.OverBudget {
		return Result{Verdict: "inconclusive", Detail: "scheduler budget exhausted"}
	}
	if stuck {
		return fail(violation("subscription_or_writer_never_returns", "writers or subscription handlers had not returned after their simulated timeout"))
	}
	if os.Getenv("VERIF_DEBUG") != "" {
		for _, ch := range changes {
			fmt.Printf("  chg %s %s [%d,%d] status=%s val=%d\n", ch.kind, ch.key, ch.call, ch.ret, ch.status, ch.val)
		}
		for si, s := range subs {
			fmt.Printf("  sub %d open=%d close=%d\n", si, s.openSeq, s.closeSeq)
			for _, e := range s.st.events {
				fmt.Printf("    ev seq=%d %v key=%s val=%d\n", e.seq, e.status, e.key, e.val)
			}
		}
	}
	delivered := 0
	for si, s := range subs {
		if s.st.overlap {
			return fail(violation("concurrent_sends_on_one_stream", "subscriber %d: two SendMsg calls were in progress on the same stream at once (grpc streams do not allow that)", si))
		}
		used := make([]bool, len(s.st.events))
		// every acknowledged change inside the window must have exactly one event
		// written values are unique except where a re-save of an earlier value ("same") is followed by an
		// increment, or re-creates the record after a removal: several acknowledged changes may then
		// legitimately carry one (key, value). Such groups are judged by count (no more events than changes,
		// no fewer than the certain ones), not one by one.
		type kv struct {
			k string
			v int64
		}
		group := map[kv][]*chg{}
		for i := range changes {
			ch := &changes[i]
			if ch.status == "NONE" || ch.status == "NOTHING_CHANGED" || ch.status == "NOT_FOUND" || ch.status == "DELETED" {
				continue
			}
			group[kv{ch.key, ch.val}] = append(group[kv{ch.key, ch.val}], ch)
		}
		groupDone := map[kv]bool{}
		for _, ch := range changes {
			if ch.status == "NONE" || ch.status == "NOTHING_CHANGED" || ch.status == "NOT_FOUND" || ch.status == "DELETED" {
				continue // deletions carry no unique value: they are checked by count below
			}
			inside := ch.call > s.openSeq && ch.ret < s.closeSeq && s.openSeq != 0
			if g := group[kv{ch.key, ch.val}]; len(g) > 1 {
				// members that certainly claim an event; a re-save answered UPDATED may or may not have changed anything
				claim := 0
				for _, m := range g {
					if !(m.kind == "same" && m.status == "UPDATED") {
						claim++
					}
				}
				if claim > 1 {
					if groupDone[kv{ch.key, ch.val}] {
						continue
					}
					groupDone[kv{ch.key, ch.val}] = true
					must, got := 0, 0
					for _, m := range g {
						if !(m.kind == "same" && m.status == "UPDATED") && m.call > s.openSeq && m.ret < s.closeSeq && s.openSeq != 0 {
							must++
						}
					}
					for i, e := range s.st.events {
						if e.key == ch.key && e.status != hydrapb.Status_DELETED && e.hasVal && e.val == ch.val && !used[i] {
							used[i] = true
							got++
						}
					}
					if got > len(g) {
						return fail(violation("duplicate_event", "subscriber %d received %d events for %s=%d but only %d acknowledged changes stored that value", si, got, ch.key, ch.val, len(g)))
					}
					if got < must {
						return fail(violation("event_missing", "subscriber %d received %d events for %s=%d although %d acknowledged changes inside its window stored that value", si, got, ch.key, ch.val, must))
					}
					delivered += got
					continue
				}
			}
			var matches []int
			for i, e := range s.st.events {
				if e.key != ch.key || used[i] {
					continue
				}
				if ch.status == "DELETED" && e.status == hydrapb.Status_DELETED && e.seq > ch.call && e.seq < ch.ret {
					matches = append(matches, i)
				}
				if ch.status != "DELETED" && e.status != hydrapb.Status_DELETED && e.hasVal && e.val == ch.val && e.seq > ch.call && e.seq < ch.ret {
					matches = append(matches, i)
				}
			}
			if ch.kind == "same" && ch.status == "UPDATED" {
				// an identical value was saved again: the documented outcome is "nothing changed, no event".
				// Only judged when it certainly was identical: the latest completed change of the key stored
				// this very value and nothing else touched the key since.
				var prev *chg
				for i := range changes {
					p := &changes[i]
					if p.key == ch.key && p.status != "NONE" && p.ret < ch.call && (prev == nil || p.ret > prev.ret) {
						prev = p
					}
				}
				certain := prev != nil && prev.val == ch.val && (prev.status == "NEW" || prev.status == "UPDATED" || prev.status == "CHANGED")
				for i := range changes {
					x := &changes[i]
					if certain && x.key == ch.key && x != prev && x.call != ch.call && x.kind != "get" && x.call < ch.ret && x.ret > prev.call {
						certain = false
					}
				}
				// after a removal that raced another request on this key the record objects of the key are in
				// a known-bad state (C09 known findings): do not judge no-op saves on such keys
				for i := range changes {
					for j := range changes {
						a, b := &changes[i], &changes[j]
						if i != j && a.key == ch.key && b.key == ch.key && (a.kind == "del" || a.kind == "shift") && a.call < b.ret && b.call < a.ret {
							certain = false
						}
					}
				}
				if len(matches) > 0 && inside && certain {
					return fail(violation("event_for_save_that_changes_nothing", "subscriber %d received an event for Set(%s=%d) although the stored value was already %d", si, ch.key, ch.val, ch.val))
				}
				continue
			}
			if len(matches) > 1 {
				return fail(violation("duplicate_event", "subscriber %d received %d events for one %s of %s (value %d)", si, len(matches), ch.kind, ch.key, ch.val))
			}
			if len(matches) == 1 {
				used[matches[0]] = true
				delivered++
				e := s.st.events[matches[0]]
				// event time: the wall-clock time of the change, i.e. within the request's interval
				if e.evTime.Before(ch.t0.Add(-time.Millisecond)) || e.evTime.After(ch.t1.Add(time.Millisecond)) {
					return fail(violation("event_time_wrong", "subscriber %d: event for %s of %s carries time %v, but the request ran from %v to %v", si, ch.kind, ch.key, e.evTime.UTC(), ch.t0.UTC(), ch.t1.UTC()))
				}
			} else if inside {
				return fail(violation("event_missing", "subscriber %d (open since event %d) received no event for the acknowledged %s of %s (value %d, request [%d,%d]); it received %d events in total", si, s.openSeq, ch.kind, ch.key, ch.val, ch.call, ch.ret, len(s.st.events)))
			}
		}
		// deletions: per key, the number of DELETED events equals the number of acknowledged removals when
		// all of them lie inside the subscription window (otherwise it may be smaller)
		delAck, delInside, delEv := map[string]int{}, map[string]int{}, map[string]int{}
		for _, ch := range changes {
			if ch.status == "DELETED" {
				delAck[ch.key]++
				if ch.call > s.openSeq && ch.ret < s.closeSeq && s.openSeq != 0 {
					delInside[ch.key]++
				}
			}
		}
		for i, e := range s.st.events {
			if e.status == hydrapb.Status_DELETED {
				delEv[e.key]++
				used[i] = true
			}
		}
		for k, n := range delAck {
			// removals racing other operations on the same key are a known weak spot (C09): judge counts only
			// for keys whose operations never overlapped
			overlapped := false
			for i := range changes {
				for j := range changes {
					a, b := &changes[i], &changes[j]
					if i != j && a.key == k && b.key == k && a.call < b.ret && b.call < a.ret {
						overlapped = true
					}
				}
			}
			if overlapped {
				continue
			}
			if delEv[k] > n {
				return fail(violation("duplicate_event", "subscriber %d received %d DELETED events for key %s but only %d removals were acknowledged", si, delEv[k], k, n))
			}
			if delEv[k] < delInside[k] {
				return fail(violation("event_missing", "subscriber %d received %d DELETED events for key %s although %d acknowledged removals happened entirely inside its subscription", si, delEv[k], k, delInside[k]))
			}
			delivered += delEv[k]
		}
		// a DELETED event carries the record that was removed: a value some acknowledged write gave that key
		for _, e := range s.st.events {
			if e.status != hydrapb.Status_DELETED || e.key == "anchor" || e.key == "" {
				continue
			}
			known := false
			for _, ch := range changes {
				if ch.key == e.key && ch.status != "DELETED" && e.hasVal && ch.val == e.val {
					known = true
				}
			}
			if !known {
				return fail(violation("deleted_event_without_committed_value", "subscriber %d received a DELETED event for key %s that carries no value any write gave that key (has value: %v, value %d)", si, e.key, e.hasVal, e.val))
			}
		}
		for k, n := range delEv {
			if delAck[k] == 0 && n > 0 {
				return fail(violation("spurious_event", "subscriber %d received a DELETED event for key %s that nobody removed", si, k))
			}
		}
		for i, e := range s.st.events {
			if !used[i] && e.key != "anchor" {
				// an event that matches no acknowledged change: tolerated only for changes overlapping the window edges
				edge := false
				for _, ch := range changes {
					if ch.key == e.key && e.seq > ch.call && e.seq < ch.ret {
						edge = true
					}
				}
				if !edge {
					return fail(violation("spurious_event", "subscriber %d received an event (%v key %s val %d) that corresponds to no request in progress", si, e.status, e.key, e.val))
				}
			}
		}
		// per key order: events of requests that did not overlap arrive in request order
		for i := range s.st.events {
			for j := i + 1; j < len(s.st.events); j++ {
				a, b := s.st.events[i], s.st.events[j]
				if a.key != b.key || a.seq < b.seq {
					continue
				}
				return fail(violation("events_out_of_order", "subscriber %d: events for key %s recorded out of sequence", si, a.key))
			}
		}
	}
	overl := false
	for i := range changes {
		for j := range changes {
			if i != j && changes[i].call < changes[j].ret && changes[j].call < changes[i].ret {
				overl = true
			}
		}
	}
	res.Verdict = "ok"
	res.count("events_delivered", int64(delivered))
	res.Nontrivial = delivered > 0 && (overl || len(changes) > 2)
	res.Fingerprint = fnv(out.stats.Hash, len(c.Ops))
	_ = sort.Ints
	_ = strings.Join
	return res
}
