package zzharness

import (
	"bytes"
	"fmt"
	"log/slog"
	"sort"
	"strings"
	"sync"

	"github.com/hydraide/hydraide/app/core/hydra/swamp/beacon"
	"github.com/hydraide/hydraide/app/core/hydra/swamp/chronicler"
	v2 "github.com/hydraide/hydraide/app/core/hydra/swamp/chronicler/v2"
	"github.com/hydraide/hydraide/app/core/hydra/swamp/treasure"
	"github.com/hydraide/hydraide/app/core/hydra/swamp/treasure/guard"
	"github.com/hydraide/hydraide/app/zzsim/simdisk"
	"github.com/hydraide/hydraide/app/zzsim/simrt"
	"github.com/hydraide/hydraide/app/zzsim/sos"
)

// ---------------------------------------------------------------------------
// log capture: the engine reports many failures only through slog

type logCapture struct {
	mu      sync.Mutex
	records []string
	errors  int
}

func (l *logCapture) Enabled(_ ctxT, lv slog.Level) bool { return lv >= slog.LevelWarn }
func (l *logCapture) Handle(_ ctxT, r slog.Record) error {
	l.mu.Lock()
	defer l.mu.Unlock()
	var b strings.Builder
	b.WriteString(r.Level.String())
	b.WriteString(" ")
	b.WriteString(r.Message)
	r.Attrs(func(a slog.Attr) bool {
		v := a.Value.String()
		if len(v) > 200 {
			v = v[:200]
		}
		b.WriteString(" " + a.Key + "=" + v)
		return true
	})
	if len(l.records) < 200 {
		l.records = append(l.records, b.String())
	}
	if r.Level >= slog.LevelError {
		l.errors++
	}
	return nil
}
func (l *logCapture) WithAttrs([]slog.Attr) slog.Handler { return l }
func (l *logCapture) WithGroup(string) slog.Handler      { return l }

// lastError returns the most recent record of level error (or the last record at all).
func (l *logCapture) lastError() string {
	l.mu.Lock()
	defer l.mu.Unlock()
	for i := len(l.records) - 1; i >= 0; i-- {
		if strings.Contains(l.records[i], "ERROR") || strings.Contains(l.records[i], "cannot") || strings.Contains(l.records[i], "fail") {
			return l.records[i]
		}
	}
	if len(l.records) > 0 {
		return l.records[len(l.records)-1]
	}
	return ""
}

func (l *logCapture) has(sub string) bool {
	l.mu.Lock()
	defer l.mu.Unlock()
	for _, r := range l.records {
		if strings.Contains(r, sub) {
			return true
		}
	}
	return false
}

func (l *logCapture) find(sub string) string {
	l.mu.Lock()
	defer l.mu.Unlock()
	for _, r := range l.records {
		if strings.Contains(r, sub) {
			return r
		}
	}
	return ""
}

func captureLogs() *logCapture {
	l := &logCapture{}
	slog.SetDefault(slog.New(l))
	return l
}

// ---------------------------------------------------------------------------
// keys and payloads

// genKey builds a key of exactly n bytes. kind 0: printable; kind 1: binary
// (0x00, 0xff, invalid UTF-8). The id makes keys of equal length distinct.
func genKey(kind, n, id int64) string {
	if n <= 0 {
		return ""
	}
	b := make([]byte, n)
	tag := fmt.Sprintf("k%d|", id)
	for i := range b {
		switch kind {
		case 0:
			b[i] = 'a' + byte((int64(i)+id)%26)
		default:
			switch (int64(i) + id) % 5 {
			case 0:
				b[i] = 0x00
			case 1:
				b[i] = 0xff
			case 2:
				b[i] = 0xc3 // dangling UTF-8 lead byte
			case 3:
				b[i] = byte(i)
			default:
				b[i] = 0x80
			}
		}
	}
	// the id is encoded at the end so that two keys of the same length differ
	// and, for long keys, a truncated key differs from the full key
	copy(b[max(0, int(n)-len(tag)):], tag)
	if int(n) < len(tag) {
		copy(b, tag[len(tag)-int(n):])
		b[0] = byte('A' + id%26)
	}
	return string(b)
}

func genPayload(n, seed int64) []byte {
	b := make([]byte, n)
	x := uint64(seed)*0x9e3779b97f4a7c15 + 1
	compressible := seed%3 == 0
	for i := range b {
		if compressible {
			b[i] = byte('a' + (seed+int64(i/64))%7)
			continue
		}
		x ^= x << 13
		x ^= x >> 7
		x ^= x << 17
		b[i] = byte(x)
	}
	return b
}

// ---------------------------------------------------------------------------
// treasures at chronicler level

func mkTreasure(key string, content []byte) treasure.Treasure {
	tr := treasure.New(nil)
	g := tr.StartTreasureGuard(false, guard.BodyAuthID)
	tr.BodySetKey(g, key)
	// one marker byte in front: an empty byte array is a typed zero value, whose
	// fidelity across gob is the subject of C05, not of the storage log (C01-C03)
	tr.SetContentByteArray(g, append([]byte{0x7e}, content...))
	tr.ReleaseTreasureGuard(g)
	return tr
}

func mkDeleted(key string) treasure.Treasure {
	tr := treasure.New(nil)
	g := tr.StartTreasureGuard(false, guard.BodyAuthID)
	tr.BodySetKey(g, key)
	tr.BodySetForDeletion(g, "verif", false)
	tr.ReleaseTreasureGuard(g)
	return tr
}

// loadViaChronicler opens a fresh chronicler on folder and returns what Load
// puts into a beacon, decoded.
func loadViaChronicler(folder string, blockSize int, threshold float64, name string) (map[string][]byte, error) {
	var ch chronicler.Chronicler
	if name != "" {
		ch = chronicler.NewV2WithName(folder, 2, name)
	} else {
		ch = chronicler.NewV2WithConfig(folder, 2, blockSize, threshold)
	}
	ch.CreateDirectoryIfNotExists()
	b := beacon.New()
	ch.Load(b)
	out := map[string][]byte{}
	var err error
	for k, tr := range b.GetAll() {
		c, e := tr.GetContentByteArray()
		if e != nil {
			err = fmt.Errorf("key %q: %v", shortKey(k), e)
			continue
		}
		if tr.GetKey() != k {
			err = fmt.Errorf("beacon key %q holds treasure with key %q", shortKey(k), shortKey(tr.GetKey()))
		}
		if len(c) == 0 || c[0] != 0x7e {
			err = fmt.Errorf("key %q: content lost its marker byte (%d bytes)", shortKey(k), len(c))
			continue
		}
		out[k] = c[1:]
	}
	ch.Close()
	return out, err
}

func shortKey(k string) string {
	if len(k) > 24 {
		return fmt.Sprintf("%q…(%dB)", k[:12], len(k))
	}
	return fmt.Sprintf("%q", k)
}

// compareState compares a recovered state with the model exactly.
// It returns "" or a (class, detail) pair.
func compareState(got, want map[string][]byte) (string, string) {
	var missing, extra, wrong []string
	for k, v := range want {
		g, ok := got[k]
		if !ok {
			missing = append(missing, shortKey(k))
		} else if !bytes.Equal(g, v) {
			wrong = append(wrong, fmt.Sprintf("%s: got %dB want %dB", shortKey(k), len(g), len(v)))
		}
	}
	for k := range got {
		if _, ok := want[k]; !ok {
			extra = append(extra, shortKey(k))
		}
	}
	sort.Strings(missing)
	sort.Strings(extra)
	sort.Strings(wrong)
	switch {
	case len(wrong) > 0:
		return "wrong_value", fmt.Sprintf("wrong=%v missing=%v extra=%v", head(wrong), head(missing), head(extra))
	case len(missing) > 0 && len(extra) > 0:
		return "missing_and_extra_keys", fmt.Sprintf("missing=%v extra=%v", head(missing), head(extra))
	case len(missing) > 0:
		return "missing_key", fmt.Sprintf("missing=%v (%d of %d)", head(missing), len(missing), len(want))
	case len(extra) > 0:
		return "extra_key", fmt.Sprintf("extra=%v", head(extra))
	}
	return "", ""
}

func head(s []string) []string {
	if len(s) > 4 {
		return append(s[:4:4], fmt.Sprintf("…+%d", len(s)-4))
	}
	return s
}

func cloneState(m map[string][]byte) map[string][]byte {
	c := make(map[string][]byte, len(m))
	for k, v := range m {
		c[k] = v
	}
	return c
}

func stateHash(m map[string][]byte) uint64 {
	keys := make([]string, 0, len(m))
	for k := range m {
		keys = append(keys, k)
	}
	sort.Strings(keys)
	h := uint64(1469598103934665603)
	for _, k := range keys {
		h = simrt.Mix(h, fnv(len(k), k[:min(len(k), 16)], len(m[k])))
	}
	return h
}

// rawLoad reads a .hyd file with the v2 reader.
func rawLoad(path string) (map[string][]byte, string, error) {
	r, err := v2.NewFileReader(path)
	if err != nil {
		return nil, "", err
	}
	defer r.Close()
	return r.LoadIndex()
}

func newDisk() *simdisk.Disk {
	d := simdisk.New()
	sos.SetDisk(d)
	return d
}

// swapDisk installs d as the simulated disk and returns the previous one.
func swapDisk(d *simdisk.Disk) *simdisk.Disk {
	prev := sos.Disk()
	sos.SetDisk(d)
	return prev
}
