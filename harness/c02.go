package zzharness

import (
	"strings"
	"fmt"
	"sort"
	"testing"

	"github.com/hydraide/hydraide/app/core/hydra/swamp/beacon"
	"github.com/hydraide/hydraide/app/core/hydra/swamp/chronicler"
	v2 "github.com/hydraide/hydraide/app/core/hydra/swamp/chronicler/v2"
	"github.com/hydraide/hydraide/app/core/hydra/swamp/treasure"
	"github.com/hydraide/hydraide/app/zzsim/simdisk"
	"github.com/hydraide/hydraide/app/zzsim/simrt"
	"github.com/hydraide/hydraide/app/zzsim/sos"
)

// Shared storage-level engine for C02 (crash), C03 (compaction) and C25 (I/O
// faults): one history is executed against the real writer / chronicler on a
// logging simulated disk, and the recorded trace (entries, durability points,
// disk operation log) is then analysed by the property's oracle.

type stEntry struct {
	key   string
	val   []byte
	del   bool
	logAt int // disk log length when the write call that carried this entry started
	opAt  int // disk mutating-op counter when that call started
	// for C25
	faultBefore bool // a fault had already fired when the call started
	faultDuring bool // a fault fired during the call
	errLogged   bool // the engine reported an error for this call
}

type stDur struct {
	logAt int // disk log length when the durability barrier returned successfully
	n     int // number of entries covered
	opAt  int
}

type stRun struct {
	d       *simdisk.Disk
	logs    *logCapture
	layer   int64
	block   int
	thr     float64
	name    string
	entries []stEntry
	durs    []stDur
	w       *v2.FileWriter
	ch      chronicler.Chronicler
	live    int
	model   map[string][]byte
	// compaction windows [from,to) in disk-log indices, for reach counting
	compWindows [][2]int
	res         *Result
	failed      *Result
	sessions    int
}

const stFolder = "/data/sw/ab/swamp"
const stHyd = stFolder + ".hyd"

func (s *stRun) faultsFired() int {
	n := 0
	for _, v := range s.d.Stats().FaultsFired {
		n += v
	}
	return n
}

// open opens the writer / chronicler. With injected faults a first attempt may
// legitimately fail (the server would log it and retry on the next request), so
// up to three attempts are made; faults are single operations or short windows.
func (s *stRun) open() error {
	var err error
	for i := 0; i < 3; i++ {
		if err = s.open1(); err == nil {
			return nil
		}
	}
	// still failing: the disk-full window outlasts the retries. The operator
	// frees space (the fault clears) and the server tries again.
	s.d.ClearFaults()
	return s.open1()
}

func (s *stRun) open1() error {
	if s.layer == 0 {
		s.d.MkdirAll("/data/sw/ab")
		w, err := v2.NewFileWriterWithName(stHyd, s.block, s.name)
		s.w = w
		return err
	}
	s.ch = chronicler.NewV2WithConfig(stFolder, 2, s.block, s.thr)
	s.ch.CreateDirectoryIfNotExists()
	s.ch.RegisterLiveCountFunction(func() int { return s.live })
	// the swamp always loads before it writes
	b := beacon.New()
	w0 := s.d.LogLen()
	r0 := s.d.Stats().Renames
	s.ch.Load(b)
	if s.d.Stats().Renames > r0 {
		// the load compacted the fragmented file (self-heal): its crash points are enumerated like any compaction's
		s.compWindows = append(s.compWindows, [2]int{w0, s.d.LogLen()})
		if s.res != nil {
			s.res.count("compactions_via_load", 1)
		}
	}
	return nil
}

func (s *stRun) closeW() error {
	var err error
	if s.layer == 0 {
		if s.w == nil {
			return nil
		}
		err = s.w.Close()
		s.w = nil
	} else {
		if s.ch == nil {
			return nil
		}
		err = s.ch.Close()
		s.ch = nil
	}
	return err
}

func (s *stRun) barrier(err error) {
	if err == nil {
		s.durs = append(s.durs, stDur{logAt: s.d.LogLen(), n: len(s.entries), opAt: s.d.OpCount()})
	}
}

func (s *stRun) write(key string, val []byte, del bool) {
	e := stEntry{key: key, val: val, del: del, logAt: s.d.LogLen(), opAt: s.d.OpCount()}
	f0 := s.faultsFired()
	e.faultBefore = f0 > 0
	errs0 := s.logs.errors
	var err error
	if s.layer == 0 {
		en := v2.Entry{Operation: v2.OpInsert, Key: key, Data: val}
		if _, ok := s.model[key]; ok {
			en.Operation = v2.OpUpdate
		}
		if del {
			en.Operation, en.Data = v2.OpDelete, nil
		}
		if s.w == nil {
			err = fmt.Errorf("writer not open")
		} else {
			err = s.w.WriteEntry(en)
		}
	} else {
		_, existed := s.model[key]
		s.live = len(s.model)
		if del && existed {
			s.live--
		} else if !del && !existed {
			s.live++
		}
		var tr treasure.Treasure
		if del {
			tr = mkDeleted(key)
		} else {
			tr = mkTreasure(key, val)
		}
		w0 := s.d.LogLen()
		r0 := s.d.Stats().Renames
		s.ch.Write([]treasure.Treasure{tr})
		if s.d.Stats().Renames > r0 {
			s.compWindows = append(s.compWindows, [2]int{w0, s.d.LogLen()})
		}
	}
	e.errLogged = err != nil || s.logs.errors > errs0
	e.faultDuring = s.faultsFired() > f0
	s.entries = append(s.entries, e)
	if del {
		delete(s.model, key)
	} else {
		s.model[key] = val
	}
}

// stateAt returns the model state after the first n entries.
func (s *stRun) stateAt(n int) map[string][]byte {
	m := map[string][]byte{}
	for i := 0; i < n && i < len(s.entries); i++ {
		e := &s.entries[i]
		if e.del {
			delete(m, e.key)
		} else {
			m[e.key] = e.val
		}
	}
	return m
}

func newStRun(c Case) *stRun {
	s := &stRun{d: newDisk(), logs: captureLogs(), layer: c.cfg("layer", 1), block: int(c.cfg("block", 16384)),
		thr: float64(c.cfg("thr", 30)) / 100, name: "verif/st/swamp", model: map[string][]byte{}, sessions: 1}
	simrt.SetPassSeed(c.Seed)
	return s
}

// exec runs the history. It returns a violation only for things that are wrong
// in any mode (engine panic is handled by the caller).
func (s *stRun) exec(c Case) {
	if err := s.open(); err != nil {
		r := violation("open_failed", "cannot open: %v", err)
		s.failed = &r
		return
	}
	s.execOps(c)
	if s.failed == nil {
		s.barrier(s.closeW())
	}
}

func (s *stRun) execOps(c Case) {
	for _, op := range c.Ops {
		switch op.K {
		case "put":
			s.write(genKey(op.A[0], op.A[1], op.A[2]), genPayload(op.A[3], op.A[4]), false)
		case "del":
			s.write(genKey(op.A[0], op.A[1], op.A[2]), nil, true)
		case "flush":
			if s.layer == 0 && s.w != nil {
				s.w.Flush()
			}
		case "sync":
			if s.layer == 0 {
				if s.w != nil {
					s.barrier(s.w.Sync())
				}
			} else {
				s.barrier(s.ch.Sync())
			}
		case "reopen":
			s.barrier(s.closeW())
			s.sessions++
			if err := s.open(); err != nil {
				r := violation("open_failed", "cannot reopen (3 attempts): %v", err)
				s.failed = &r
				return
			}
		case "force":
			if s.layer == 1 {
				w0 := s.d.LogLen()
				err := s.ch.ForceCompaction()
				s.compWindows = append(s.compWindows, [2]int{w0, s.d.LogLen()})
				if err == nil {
					s.barrier(nil) // ForceCompaction closes (fsyncs) the writer first
				}
			}
		case "cli":
			// command-line style compaction while the swamp is closed
			s.barrier(s.closeW())
			w0 := s.d.LogLen()
			s.cliCompact(op.A[0])
			s.compWindows = append(s.compWindows, [2]int{w0, s.d.LogLen()})
			s.sessions++
			if err := s.open(); err != nil {
				r := violation("open_failed", "cannot reopen after cli compaction: %v", err)
				s.failed = &r
				return
			}
		case "plant":
			s.plantTemp(op.A[0], op.A[1])
		}
	}
}

func (s *stRun) cliCompact(kind int64) {
	if !s.d.Exists(stHyd) {
		return
	}
	switch kind % 4 {
	case 0:
		v2.NewCompactor(stHyd, s.block, s.thr).Compact()
	case 1:
		v2.NewCompactor(stHyd, s.block, s.thr).CompactIfNeeded()
	case 2:
		v2.NewCompactor(stHyd, s.block, 0.9).ForceCompact()
	case 3:
		v2.CompactDirectory("/data/sw/ab", s.block, s.thr)
	}
}

// plantTemp leaves a "<file>.compact" behind, as an interrupted earlier
// compaction would: kind 0 a complete valid file holding an older state, kind 1
// a truncated prefix of one, kind 2 empty, kind 3 garbage.
func (s *stRun) plantTemp(kind, arg int64) {
	temp := stHyd + ".compact"
	switch kind % 4 {
	case 0, 1:
		// build a valid file with stale contents: keys that the model may have deleted or overwritten since
		save := sos.Disk()
		tmpd := simdisk.New()
		sos.SetDisk(tmpd)
		tmpd.MkdirAll("/t")
		w, err := v2.NewFileWriterWithName("/t/x.hyd", s.block, s.name)
		if err == nil {
			for i := 0; i < len(s.entries) && i < 1+int(arg%40); i++ {
				e := &s.entries[i]
				if !e.del {
					w.WriteEntry(v2.Entry{Operation: v2.OpInsert, Key: e.key, Data: append([]byte("STALE"), e.val...)})
				}
			}
			w.WriteEntry(v2.Entry{Operation: v2.OpInsert, Key: "stale-only-key", Data: []byte("STALE")})
			w.Close()
		}
		b, _ := tmpd.ReadFile("/t/x.hyd")
		sos.SetDisk(save)
		if kind%4 == 1 && len(b) > 70 {
			b = b[:70+int(arg)%(len(b)-70)]
		}
		s.d.PutFile(temp, b)
	case 2:
		s.d.PutFile(temp, nil)
	case 3:
		s.d.PutFile(temp, genPayload(10+arg%500, arg))
	}
	s.res.count("planted_temp_files", 1)
}

// loadImage loads the swamp from disk img the way a restarted server would
// (layer 1: chronicler Load; layer 0: v2 reader) and returns the recovered
// state or the error the engine reported.
func loadImage(img *simdisk.Disk, layer int64, block int, thr float64) (map[string][]byte, error) {
	sos.SetDisk(img)
	logs := captureLogs()
	if !img.Exists(stHyd) {
		return map[string][]byte{}, nil
	}
	if layer == 0 {
		m, _, err := rawLoad(stHyd)
		return m, err
	}
	got, err := loadViaChronicler(stFolder, block, thr, "")
	for _, sub := range []string{"cannot load index", "cannot open swamp file", "cannot decode treasure"} {
		if e := logs.find(sub); e != "" {
			return got, fmt.Errorf("%s", e)
		}
	}
	return got, err
}

// tornPhase names what the in-flight write was, from its shape.
func tornPhase(op *simdisk.LogOp) string {
	if op == nil {
		return "none"
	}
	if op.Kind != simdisk.OpWrite {
		return simdisk.OpName(op.Kind)
	}
	switch {
	case op.Off == 0 && len(op.Data) == 64:
		return "file_header_write"
	case op.Off == 64 && len(op.Data) < 64 && !(len(op.Data) >= 16 && op.Data[len(op.Data)-1] == 0 && op.Data[len(op.Data)-2] == 0):
		return "name_write"
	default:
		return "block_write"
	}
}

// ---------------------------------------------------------------------------
// C02

func init() {
	register(&Property{
		ID:    "C02",
		Level: "fault_enumeration",
		Rule: "for each seeded write history (put/delete/flush/sync/reopen/force-compaction over 1..12 keys, block 64B..16KiB, v2 writer or chronicler) every prefix of the recorded disk operation log is materialised as a crash image " +
			"(plus torn variants of the in-flight write: every byte for writes <=128B in the thorough tier, else first/middle/last byte), loaded by a fresh incarnation, and then written to again; " +
			"non-trivial = image whose cut lies after the last completed fsync (unsynced data or an in-flight write exists); distinct = hash of (history, cut, torn); " +
			"a quarter of the workers run the same crash enumeration against the WHOLE in-process server (gateway -> hydra -> swamp -> write ticker -> chronicler; sequential Set/Delete/ShiftByKeys/waits/graceful restarts, write interval 0/1 s, idle close 2 s or off) inside synctest bubbles: " +
			"each sampled crash image is served by a new server incarnation, read through the API, written to again, flushed, stopped and restarted",
		Gen:     genC02,
		Run:     runC02,
		SimCase: func(c Case) bool { return c.cfg("layer", 1) == 2 },
		Assumptions: []string{"whole-server cases (a quarter of the workers): durable = acknowledged (write interval 0) or acknowledged before an idle wait >= 1.5 s / a graceful stop (write interval 1 s); judged per key: the value after some request between the durable point and everything started; cuts sampled from the first operation on the swamp file on (24 per history in the quick tier, up to 400 in the thorough tier)",
			"crash model: the persisted state is a prefix of the operation log, at least up to the last completed fsync, plus an arbitrary byte prefix of the next write; renames are atomic; no reordering of unsynced writes is assumed",
			"the recovered state may be any entry-granular prefix between the last durable point and everything issued (superset of flush-boundary states)"},
		Real: storageReal,
		Stub: storageStub,
	})
}

func genC02(seed uint64, tier string) Case {
	if strings.HasSuffix(tier, "+sim") {
		return genC02G(seed, strings.TrimSuffix(tier, "+sim"))
	}
	r := newRng(seed, "c02")
	c := Case{Prop: "C02", Seed: seed, Cfg: map[string]int64{}}
	c.Cfg["layer"] = int64(r.pick(1, 3))
	c.Cfg["block"] = []int64{64, 200, 1024, 4096, 16384}[r.intn(5)]
	c.Cfg["thr"] = []int64{30, 10, 60}[r.intn(3)]
	maxOps := 25
	if tier == "thorough" {
		maxOps = 120
	}
	c.Ops = genSmallStorageOps(r, maxOps, c.Cfg["layer"] == 1 && r.chance(1, 3))
	if tier == "thorough" {
		c.Cfg["thorough"] = 1
	}
	c.Cfg["second_crash"] = int64(r.intn(4)) // 0: also crash a second time during the post-recovery writes
	return c
}

// genSmallStorageOps: small keys and payloads so that many flush boundaries,
// header rewrites and compactions occur within few operations.
func genSmallStorageOps(r *rng, maxOps int, compaction bool) []Op {
	nkeys := 1 + r.intn(12)
	nops := 1 + r.intn(maxOps)
	if r.chance(1, 4) {
		nops = 1 + r.intn(4)
	}
	heavy := compaction && r.chance(1, 2) // overwrite-heavy: crosses the 100-entry inline compaction threshold
	if heavy {
		nkeys = 1 + r.intn(4)
		nops = 100 + r.intn(150)
	}
	var ops []Op
	for i := 0; i < nops; i++ {
		ki := int64(r.intn(nkeys))
		klen := 1 + (ki*7)%23
		switch r.pick(62, 14, 5, 9, 8, 2) {
		case 0:
			plen := int64(r.intn(40))
			if r.chance(1, 6) {
				plen = int64(r.intn(600))
			}
			ops = append(ops, Op{K: "put", A: []int64{ki % 2, klen, ki, plen, int64(r.intn(1 << 20))}})
		case 1:
			ops = append(ops, Op{K: "del", A: []int64{ki % 2, klen, ki}})
		case 2:
			ops = append(ops, Op{K: "flush"})
		case 3:
			ops = append(ops, Op{K: "sync"})
		case 4:
			ops = append(ops, Op{K: "reopen"})
		default:
			if compaction {
				ops = append(ops, Op{K: "force"})
			}
		}
	}
	return ops
}

func runC02(t *testing.T, c Case) (res Result) {
	if c.cfg("layer", 1) == 2 {
		return runC02G(t, c)
	}
	defer func() {
		if r := recover(); r != nil {
			res = violation("panic", "engine panicked: %v", r)
		}
	}()
	s := newStRun(c)
	s.res = &res
	s.exec(c)
	if s.failed != nil {
		return *s.failed
	}
	log := s.d.Log()
	thorough := c.cfg("thorough", 0) == 1
	// crash points: every log index, or the explicit one of a replay/shrunk case
	type cut struct{ j, torn int }
	var cuts []cut
	if j, ok := c.Cfg["cut"]; ok {
		cuts = []cut{{int(j), int(c.cfg("torn", -1))}}
	} else {
		for j := 0; j <= len(log); j++ {
			cuts = append(cuts, cut{j, -1})
			if j > 0 && (log[j-1].Kind == simdisk.OpRename || log[j-1].Kind == simdisk.OpRemove || log[j-1].Kind == simdisk.OpCreate || log[j-1].Kind == simdisk.OpClose) {
				// the same moment with every byte that nobody fsynced gone (names persist, unsynced data does not)
				cuts = append(cuts, cut{j, simdisk.LoseUnsynced})
			}
			if j < len(log) && log[j].Kind == simdisk.OpWrite {
				n := len(log[j].Data)
				if n <= 128 && thorough {
					for b := 1; b < n; b++ {
						cuts = append(cuts, cut{j, b})
					}
				} else {
					for _, b := range []int{1, n / 2, n - 1} {
						if b > 0 && b < n {
							cuts = append(cuts, cut{j, b})
						}
					}
				}
			}
		}
	}
	fpSet := map[uint64]bool{}
	histHash := fnv(c.Seed, len(c.Ops), len(log))
	for _, cu := range cuts {
		if v := s.checkCut(log, cu.j, cu.torn, &res, fpSet, histHash, false); v != nil {
			return *v
		}
	}
	res.Verdict = "ok"
	res.Nontrivial = len(fpSet) > 0
	res.Fingerprint = fnv(histHash, len(cuts))
	for f := range fpSet {
		res.FPs = append(res.FPs, f)
	}
	res.TraceHash = fnv(len(log), s.d.Stats().BytesWritten, len(s.entries), len(s.durs))
	res.count("histories", 1)
	res.count("disk_log_ops", int64(len(log)))
	res.count("nontrivial_crash_images", int64(len(fpSet)))
	return res
}

// checkCut materialises one crash image, lets a fresh incarnation load it,
// checks the recovered state against the model and then checks that the swamp
// can be written to again. onlyCompaction skips cuts outside compaction windows.
func (s *stRun) checkCut(log []simdisk.LogOp, j, torn int, res *Result, fpSet map[uint64]bool, histHash uint64, onlyCompaction bool) *Result {
	inComp := false
	for _, w := range s.compWindows {
		if j > w[0] && j < w[1] {
			inComp = true
		}
	}
	if onlyCompaction && !inComp {
		return nil
	}
	img := s.d.ImageAt(j, torn)
	nDur, nMax := 0, 0
	lastSyncLog := 0
	// The persisted prefix may be shorter than what had been issued when the power failed: everything after the
	// last completed fsync can be lost. Image j is therefore a legal outcome of a crash at any moment up to (not
	// including) the completion of the next fsync at or after operation j - and whatever the engine had reported as
	// synced by then (a Sync/Close that returned without error) must be in it. An engine that returns from Sync
	// without having fsynced is caught here: its barrier lies before any fsync that would cover the data.
	kCrash := nextFsync(log, j)
	if torn == simdisk.LoseUnsynced {
		kCrash = j // this image is the crash at exactly j with the unsynced data gone
	}
	for _, du := range s.durs {
		if du.logAt <= kCrash {
			nDur = du.n
		}
		if du.logAt <= j {
			lastSyncLog = du.logAt
		}
	}
	for i := range s.entries {
		if s.entries[i].logAt <= j {
			nMax = i + 1
		}
	}
	if nMax < nDur {
		nMax = nDur
	}
	var inflight *simdisk.LogOp
	if j < len(log) {
		inflight = &log[j]
	}
	phase := "clean"
	if torn >= 0 {
		phase = "torn_" + tornPhase(inflight)
	} else if j > lastSyncLog {
		phase = "after_" + tornPhase(&log[j-1])
	}
	if torn == simdisk.LoseUnsynced {
		phase += "_unsynced_data_lost"
	}
	if inComp {
		phase = "compaction_" + phase
		res.count("crash_inside_compaction", 1)
	}
	res.count("crash_images", 1)
	res.count("phase:"+phase, 1)
	if j > lastSyncLog || torn >= 0 {
		fpSet[fnv(histHash, j, torn)] = true
	}
	got, err := loadImage(img, s.layer, s.block, s.thr)
	if err != nil {
		if nDur > 0 {
			v := violation("crash_"+phase+"_swamp_unreadable", "cut=%d/%d torn=%d: after the crash the swamp does not load: %v; %d entries were durable (synced) and %d issued", j, len(log), torn, err, nDur, nMax)
			v.Counters = res.Counters
			v = withCut(v, j, torn)
			return &v
		}
		// nothing was durable: the server comes up with an empty swamp, which is a
		// legal outcome; but it must be able to write to that swamp again
		res.count("unreadable_but_nothing_durable", 1)
		got = map[string][]byte{}
	}
	matched := -1
	for n := nMax; n >= nDur; n-- {
		if cl, _ := compareState(got, s.stateAt(n)); cl == "" {
			matched = n
			break
		}
	}
	if matched < 0 {
		cl, det := compareState(got, s.stateAt(nDur))
		v := violation("crash_"+phase+"_"+cl, "cut=%d/%d torn=%d: recovered state matches no prefix of the history between the durable point (%d entries) and everything issued (%d); against the durable state: %s", j, len(log), torn, nDur, nMax, det)
		v.Counters = res.Counters
		v = withCut(v, j, torn)
		return &v
	}
	// writes after recovery are themselves recoverable
	if r := postRecovery(img, s, got, j, phase, res); r != nil {
		r.Counters = res.Counters
		v := withCut(*r, j, torn)
		return &v
	}
	return nil
}

func withCut(r Result, j, torn int) Result {
	r.Detail = fmt.Sprintf("%s [replay with cfg cut=%d torn=%d]", r.Detail, j, torn)
	return r
}

// postRecovery appends to the recovered swamp, syncs, closes and reloads.
func postRecovery(img *simdisk.Disk, s *stRun, recovered map[string][]byte, j int, phase string, res *Result) *Result {
	sos.SetDisk(img)
	captureLogs()
	want := cloneState(recovered)
	newKeys := []string{"post-a", genKey(0, 9, 77), "post-c"}
	if s.layer == 0 {
		w, err := v2.NewFileWriterWithName(stHyd, s.block, s.name)
		if err != nil {
			// an unopenable file after a crash: the swamp cannot be written to again
			if len(recovered) > 0 || img.Exists(stHyd) {
				v := violation("crash_"+phase+"_cannot_append_after_recovery", "cut=%d: the recovered file cannot be opened for writing: %v", j, err)
				return &v
			}
			return nil
		}
		for i, k := range newKeys {
			val := []byte(fmt.Sprintf("post-%d", i))
			if err := w.WriteEntry(v2.Entry{Operation: v2.OpInsert, Key: k, Data: val}); err != nil {
				v := violation("crash_"+phase+"_cannot_append_after_recovery", "cut=%d: WriteEntry after recovery: %v", j, err)
				return &v
			}
			want[k] = val
		}
		if err := w.Close(); err != nil {
			v := violation("crash_"+phase+"_cannot_append_after_recovery", "cut=%d: Close after recovery: %v", j, err)
			return &v
		}
	} else {
		ch := chronicler.NewV2WithConfig(stFolder, 2, s.block, s.thr)
		ch.CreateDirectoryIfNotExists()
		ch.RegisterLiveCountFunction(func() int { return len(want) })
		ch.Load(beacon.New())
		for i, k := range newKeys {
			val := []byte(fmt.Sprintf("post-%d", i))
			ch.Write([]treasure.Treasure{mkTreasure(k, val)})
			want[k] = val
		}
		if err := ch.Sync(); err != nil {
			v := violation("crash_"+phase+"_cannot_append_after_recovery", "cut=%d: Sync after recovery: %v", j, err)
			return &v
		}
		if err := ch.Close(); err != nil {
			v := violation("crash_"+phase+"_cannot_append_after_recovery", "cut=%d: Close after recovery: %v", j, err)
			return &v
		}
	}
	got, err := loadImage(img, s.layer, s.block, s.thr)
	if err != nil {
		v := violation("crash_"+phase+"_writes_after_recovery_unreadable", "cut=%d: after recovery, 3 new writes, sync and close the swamp does not load: %v", j, err)
		return &v
	}
	if cl, det := compareState(got, want); cl != "" {
		v := violation("crash_"+phase+"_writes_after_recovery_"+cl, "cut=%d: after recovery + 3 new synced writes + reload: %s", j, det)
		return &v
	}
	res.count("post_recovery_rounds", 1)
	return nil
}

func sortedKeys(m map[string]int64) []string {
	var ks []string
	for k := range m {
		ks = append(ks, k)
	}
	sort.Strings(ks)
	return ks
}

// nextFsync returns the index of the first fsync operation at or after j (len(log) if there is none): the latest
// crash moment for which "exactly the first j operations are persistent" is still a legal image.
func nextFsync(log []simdisk.LogOp, j int) int {
	for i := j; i < len(log); i++ {
		if log[i].Kind == simdisk.OpFsync {
			return i
		}
	}
	return len(log)
}
