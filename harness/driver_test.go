package zzharness

import (
	"syscall"
	"encoding/json"
	"fmt"
	"os"
	"os/exec"
	"path/filepath"
	"runtime"
	"sort"
	"strings"
	"sync"
	"testing"
	"time"

	"github.com/hydraide/hydraide/app/zzsim/simrt"
)

type job struct {
	Mode      string `json:"mode"` // driver | worker | run | shrink
	Prop      string `json:"prop"`
	Tier      string `json:"tier"`
	Seed      uint64 `json:"seed"`
	Workers   int    `json:"workers"`
	Index     int    `json:"index"`
	Offset    uint64 `json:"offset"`
	MaxRuns   int    `json:"max_runs"`
	BudgetS   int    `json:"budget_s"`
	CaseFile  string `json:"case_file"`
	Out       string `json:"out"`
	Known     string `json:"known"`
	Evidence  string `json:"evidence"`
	Replays   string `json:"replays"`
	WantClass string `json:"want_class"`
	Repeat    int    `json:"repeat"`
}

type vio struct {
	Case   Case   `json:"case"`
	Result Result `json:"result"`
	N      int    `json:"n"`
}

type summary struct {
	Runs         int                `json:"runs"`
	Nontrivial   int                `json:"nontrivial"`
	Inconclusive int                `json:"inconclusive"`
	Fingerprints []uint64           `json:"fingerprints"`
	States       []uint64           `json:"states"`
	Counters     map[string]int64   `json:"counters"`
	SimNanos     int64              `json:"sim_nanos"`
	Violations   map[string]*vio    `json:"violations"`
	Samples      []json.RawMessage  `json:"samples"`
	WallS        float64            `json:"wall_s"`
	NextOffset   uint64             `json:"next_offset"`
	IncSamples   []string           `json:"inconclusive_samples,omitempty"`
	Nondet       []string           `json:"nondeterministic,omitempty"`
	Infra        []string           `json:"infra,omitempty"`
	Extra        map[string]float64 `json:"extra,omitempty"`
}

func runSeed(base uint64, n uint64) uint64 { return simrt.Mix(base, n) }

// TestSim is the single entry point of the harness binary; VERIF_JOB selects what it does.
func TestSim(t *testing.T) {
	js := os.Getenv("VERIF_JOB")
	if js == "" {
		t.Skip("VERIF_JOB not set")
	}
	var j job
	if err := json.Unmarshal([]byte(js), &j); err != nil {
		fmt.Fprintf(os.Stderr, "harness: bad VERIF_JOB: %v\n", err)
		os.Exit(2)
	}
	if simrt.RaceEnabled && os.Getenv("VERIF_RACE_LOG") == "" {
		os.Exit(reexecWithRaceLog())
	}
	p := registry[j.Prop]
	if p == nil {
		fmt.Fprintf(os.Stderr, "harness: unknown property %q (have %v)\n", j.Prop, propIDs())
		os.Exit(2)
	}
	simProcess := p.Sim
	if p.SimCase != nil {
		switch j.Mode {
		case "worker", "trace":
			simProcess = strings.HasSuffix(j.Tier, "+sim")
		case "run", "shrink":
			simProcess = p.SimCase(loadCase(j.CaseFile))
		}
	}
	if simProcess {
		simrt.SetSimProcess(true)
	}
	if p.MemLimitGB > 0 && j.Mode != "driver" && !simrt.RaceEnabled {
		// the property feeds the server inputs that may make it ask for absurd amounts of memory: with a bounded address
		// space such a request fails at once (fatal "out of memory", which the driver reports as a process crash and
		// replays) instead of succeeding on a large machine and starving everything else
		lim := uint64(p.MemLimitGB) << 30
		var cur syscall.Rlimit
		if err := syscall.Getrlimit(syscall.RLIMIT_AS, &cur); err == nil {
			if cur.Max < lim {
				lim = cur.Max // an environment that is already tighter stays as tight as it is
			}
			// only the soft limit is lowered; a failure to do so is reported and not fatal (the run is then merely
			// unprotected against inputs that make the server allocate absurd amounts)
			if err := syscall.Setrlimit(syscall.RLIMIT_AS, &syscall.Rlimit{Cur: lim, Max: cur.Max}); err != nil {
				fmt.Fprintf(os.Stderr, "harness: cannot bound the address space: %v\n", err)
			}
		}
	}
	switch j.Mode {
	case "driver":
		os.Exit(driver(t, p, j))
	case "worker":
		worker(t, p, j)
	case "gencase":
		// development aid: write the case the generator produces for a case seed (as printed in diagnostics)
		b, _ := json.MarshalIndent(p.Gen(j.Seed, j.Tier), "", " ")
		os.WriteFile(j.Out, b, 0o644)
	case "run":
		if j.Repeat > 1 {
			// development aid: the same case several times in one process, one line per execution
			c := loadCase(j.CaseFile)
			for i := 0; i < j.Repeat; i++ {
				r := safeRun(t, p, c)
				fmt.Printf("rep %d: %s %s %x steps=%d detail=%s\n", i, r.Verdict, r.Class, r.TraceHash, r.Counters["sched_steps"], r.Detail)
			}
			os.Exit(0)
		}
		os.Exit(runOne(t, p, j))
	case "shrink":
		shrinkJob(t, p, j)
	case "trace":
		// determinism self-test: one line per generated case (seed, verdict, class, trace hash, steps); the
		// caller runs this in several processes under different GOMAXPROCS and diffs the outputs
		var sb strings.Builder
		for i := 0; i < j.MaxRuns; i++ {
			seed := runSeed(j.Seed, j.Offset+uint64(i))
			c := p.Gen(seed, j.Tier)
			r := safeRun(t, p, c)
			fmt.Fprintf(&sb, "%d %s %s %x %d\n", seed, r.Verdict, r.Class, r.TraceHash, r.Counters["sched_steps"])
		}
		if err := os.WriteFile(j.Out, []byte(sb.String()), 0o644); err != nil {
			fmt.Fprintf(os.Stderr, "harness: %v\n", err)
			os.Exit(2)
		}
	default:
		fmt.Fprintf(os.Stderr, "harness: unknown mode %q\n", j.Mode)
		os.Exit(2)
	}
}

// reexecWithRaceLog runs this binary again with the race detector configured to write every report (no
// de-duplication, nothing fatal) to a log file the harness reads back after each run.
func reexecWithRaceLog() int {
	dir, err := os.MkdirTemp("", "verif-race-")
	if err != nil {
		fmt.Fprintf(os.Stderr, "harness: %v\n", err)
		return 2
	}
	defer os.RemoveAll(dir)
	prefix := filepath.Join(dir, "race")
	cmd := exec.Command(os.Args[0], os.Args[1:]...)
	cmd.Env = append(os.Environ(), "VERIF_RACE_LOG="+prefix,
		"GORACE=log_path="+prefix+" suppress_equal_stacks=0 suppress_equal_addresses=0 history_size=6 halt_on_error=0 exitcode=0 atexit_sleep_ms=0")
	cmd.Stdout, cmd.Stderr, cmd.Stdin = os.Stdout, os.Stderr, os.Stdin
	if err := cmd.Run(); err != nil {
		if ee, ok := err.(*exec.ExitError); ok {
			return ee.ExitCode()
		}
		fmt.Fprintf(os.Stderr, "harness: %v\n", err)
		return 2
	}
	return 0
}

func safeRun(t *testing.T, p *Property, c Case) (res Result) {
	defer func() {
		if r := recover(); r != nil {
			buf := make([]byte, 4096)
			n := runtime.Stack(buf, false)
			res = Result{Verdict: "violation", Class: "harness_panic", Detail: fmt.Sprintf("%v\n%s", r, buf[:n])}
		}
	}()
	return p.Run(t, c)
}

func worker(t *testing.T, p *Property, j job) {
	start := time.Now()
	s := summary{Counters: map[string]int64{}, Violations: map[string]*vio{}}
	fps := map[uint64]bool{}
	states := map[uint64]bool{}
	marker := j.Out + ".cur"
	n := j.Offset
	for s.Runs < j.MaxRuns && time.Since(start) < time.Duration(j.BudgetS)*time.Second {
		seed := runSeed(j.Seed, n*uint64(j.Workers)+uint64(j.Index))
		n++
		c := p.Gen(seed, j.Tier)
		cb, _ := json.Marshal(c)
		os.WriteFile(marker, cb, 0o644)
		res := safeRun(t, p, c)
		s.Runs++
		s.SimNanos += res.SimNanos
		for k, v := range res.Counters {
			s.Counters[k] += v
		}
		if c.Sched != nil {
			// which scheduling regimes the batch used (swarm style: drawn per case)
			switch {
			case c.Sched.PreemptPPM == 0:
				s.Counters["schedule:no_preemption"]++
			case c.Sched.PreemptPPM <= 5_000:
				s.Counters["schedule:rare_preemption"]++
			case c.Sched.PreemptPPM <= 30_000:
				s.Counters["schedule:moderate_preemption"]++
			default:
				s.Counters["schedule:frequent_preemption"]++
			}
			if c.Sched.HoldMax > 0 {
				s.Counters["schedule:long_preemptions(hold_max)"]++
			}
			if c.Sched.HotPPM > 0 {
				s.Counters["schedule:hot_preemption_before_guard"]++
			}
			if c.Sched.StallPPM > 0 {
				s.Counters["schedule:simulated_time_stalls"]++
			}
		}
		for _, st := range res.States {
			if len(states) < 200000 {
				states[st] = true
			}
		}
		switch res.Verdict {
		case "violation":
			cls := res.Classes
			if len(cls) == 0 {
				cls = []string{res.Class}
			}
			for _, class := range cls {
				rc := res
				rc.Class, rc.Detail = class, res.detailOf(class)
				rc.Classes, rc.Details = nil, nil
				v := s.Violations[class]
				if v == nil {
					s.Violations[class] = &vio{Case: c, Result: rc, N: 1}
				} else {
					v.N++
					if len(c.Ops) < len(v.Case.Ops) {
						v.Case, v.Result = c, rc
					}
				}
			}
		case "infra":
			if len(s.Infra) < 5 {
				s.Infra = append(s.Infra, fmt.Sprintf("seed=%d: %s", seed, res.Detail))
			}
		case "inconclusive":
			s.Inconclusive++
			if len(s.IncSamples) < 3 {
				s.IncSamples = append(s.IncSamples, res.Detail)
			}
		}
		if res.Nontrivial && len(fps) < 500000 {
			if len(res.FPs) == 0 {
				fps[res.Fingerprint] = true
			}
			for _, f := range res.FPs {
				fps[f] = true
			}
		}
		if res.Nontrivial {
			s.Nontrivial++
		}
		if len(s.Samples) < 2 && res.Nontrivial && len(cb) < 6000 {
			s.Samples = append(s.Samples, json.RawMessage(cb))
		}
		// determinism self-check on a sample of runs: same case, same verdict and trace
		if j.Repeat > 0 && s.Runs%j.Repeat == 0 {
			r2 := safeRun(t, p, c)
			s.Counters["determinism_rechecks"]++
			if r2.Verdict != res.Verdict || r2.Class != res.Class || r2.TraceHash != res.TraceHash || strings.Join(r2.Classes, ",") != strings.Join(res.Classes, ",") {
				s.Nondet = append(s.Nondet, fmt.Sprintf("seed=%d first=%s/%s/%x second=%s/%s/%x", seed, res.Verdict, res.Class, res.TraceHash, r2.Verdict, r2.Class, r2.TraceHash))
			}
		}
	}
	for k := range fps {
		s.Fingerprints = append(s.Fingerprints, k)
	}
	for k := range states {
		s.States = append(s.States, k)
	}
	s.WallS = time.Since(start).Seconds()
	s.NextOffset = n
	b, _ := json.Marshal(s)
	if err := os.WriteFile(j.Out, b, 0o644); err != nil {
		fmt.Fprintf(os.Stderr, "harness: %v\n", err)
		os.Exit(2)
	}
	os.Remove(marker)
}

func selfExec(j job, timeout time.Duration) ([]byte, error) {
	js, _ := json.Marshal(j)
	cmd := exec.Command(os.Args[0], "-test.run", "^TestSim$", "-test.timeout", "0", "-test.count", "1")
	cmd.Env = append(os.Environ(), "VERIF_JOB="+string(js), "GOMAXPROCS=2", "GOGC=300")
	done := make(chan struct{})
	var out []byte
	var err error
	go func() {
		out, err = cmd.CombinedOutput()
		close(done)
	}()
	select {
	case <-done:
	case <-time.After(timeout):
		if cmd.Process != nil {
			cmd.Process.Kill()
		}
		<-done
		err = fmt.Errorf("timeout after %v", timeout)
	}
	return out, err
}

func driver(t *testing.T, p *Property, j job) int {
	start := time.Now()
	if j.Workers <= 0 {
		j.Workers = runtime.NumCPU()
	}
	tmp, err := os.MkdirTemp("", "verif-"+p.ID+"-")
	if err != nil {
		fmt.Fprintf(os.Stderr, "harness: %v\n", err)
		return 2
	}
	defer os.RemoveAll(tmp)
	known := loadKnown(j.Known)
	deadline := start.Add(time.Duration(j.BudgetS) * time.Second)
	var mu sync.Mutex
	total := summary{Counters: map[string]int64{}, Violations: map[string]*vio{}}
	fps := map[uint64]bool{}
	states := map[uint64]bool{}
	var crashes []Case
	infra := false
	var wg sync.WaitGroup
	for w := 0; w < j.Workers; w++ {
		wg.Add(1)
		go func(w int) {
			defer wg.Done()
			off := uint64(0)
			for round := 0; time.Now().Before(deadline); round++ {
				left := int(time.Until(deadline).Seconds())
				if left < 1 {
					break
				}
				wj := j
				wj.Mode = "worker"
				wj.Index = w
				wj.Offset = off
				wj.BudgetS = left
				if wj.MaxRuns == 0 {
					wj.MaxRuns = 400
				}
				if p.Sim && wj.MaxRuns > 150 {
					// finished runs leave goroutines blocked forever in their dead bubbles (with
					// everything they reference): recycle the worker process often
					wj.MaxRuns = 150
				}
				if simrt.RaceEnabled && wj.MaxRuns > 40 {
					wj.MaxRuns = 40 // the race detector keeps state per goroutine ever started
				}
				if p.SimCase != nil && w%4 == 3 {
					wj.Tier = j.Tier + "+sim" // this worker runs the property's whole-server cases
					if wj.MaxRuns > 60 {
						wj.MaxRuns = 60
					}
				}
				wj.Out = filepath.Join(tmp, fmt.Sprintf("w%d-%d.json", w, round))
				out, err := selfExec(wj, time.Duration(left+120)*time.Second)
				b, rerr := os.ReadFile(wj.Out)
				if rerr != nil {
					// the worker died: attribute to the case in the marker file
					mb, merr := os.ReadFile(wj.Out + ".cur")
					mu.Lock()
					if merr == nil {
						var c Case
						if json.Unmarshal(mb, &c) == nil {
							crashes = append(crashes, c)
						}
						tail := string(out)
						if len(tail) > 3000 {
							tail = tail[len(tail)-3000:]
						}
						fmt.Fprintf(os.Stderr, "harness: worker %d died (%v); last output:\n%s\n", w, err, tail)
					} else {
						fmt.Fprintf(os.Stderr, "harness: worker %d failed without a marker (%v):\n%s\n", w, err, string(out))
						infra = true
					}
					mu.Unlock()
					off += uint64(wj.MaxRuns) // skip past the chunk that killed the worker
					if infra {
						return
					}
					continue
				}
				var s summary
				if err := json.Unmarshal(b, &s); err != nil {
					mu.Lock()
					infra = true
					mu.Unlock()
					return
				}
				os.Remove(wj.Out)
				off = s.NextOffset
				mu.Lock()
				total.Runs += s.Runs
				total.Nontrivial += s.Nontrivial
				total.Inconclusive += s.Inconclusive
				total.SimNanos += s.SimNanos
				for k, v := range s.Counters {
					total.Counters[k] += v
				}
				for _, f := range s.Fingerprints {
					fps[f] = true
				}
				for _, f := range s.States {
					states[f] = true
				}
				for k, v := range s.Violations {
					if o := total.Violations[k]; o == nil {
						total.Violations[k] = v
					} else {
						o.N += v.N
						if len(v.Case.Ops) < len(o.Case.Ops) {
							o.Case, o.Result = v.Case, v.Result
						}
					}
				}
				if len(total.Samples) < 3 {
					total.Samples = append(total.Samples, s.Samples...)
				}
				total.IncSamples = append(total.IncSamples, s.IncSamples...)
				total.Nondet = append(total.Nondet, s.Nondet...)
				total.Infra = append(total.Infra, s.Infra...)
				mu.Unlock()
			}
		}(w)
	}
	wg.Wait()
	if infra {
		return 2
	}
	exit := 0
	nviol := 0
	// worker deaths: replay each in a fresh process to classify
	for i, c := range crashes {
		if i >= 3 {
			break
		}
		cf := filepath.Join(tmp, fmt.Sprintf("crash-%d.json", i))
		cb, _ := json.Marshal(c)
		os.WriteFile(cf, cb, 0o644)
		rj := job{Mode: "run", Prop: p.ID, CaseFile: cf, Out: cf + ".res"}
		out, _ := selfExec(rj, 10*time.Minute)
		if _, err := os.Stat(cf + ".res"); err != nil {
			// died again: a reproducible process crash
			class := "process_crash:" + crashSignature(string(out))
			total.Violations[class] = &vio{Case: c, Result: Result{Verdict: "violation", Class: class, Detail: tailStr(string(out), 1500)}, N: 1}
		} else {
			fmt.Fprintf(os.Stderr, "harness: worker death did not reproduce for seed %d (treated as infrastructure trouble)\n", c.Seed)
			exit = 2
		}
	}
	classes := make([]string, 0, len(total.Violations))
	for k := range total.Violations {
		classes = append(classes, k)
	}
	sort.Strings(classes)
	knownSeen := map[string]int{}
	type verdict struct {
		class      string
		stdout     string
		stderr     string
		reproduced bool
	}
	var pending []string
	for _, class := range classes {
		v := total.Violations[class]
		if k := isKnown(known, p.ID, class); k != nil {
			knownSeen[class] = v.N
			fmt.Printf("KNOWN-FINDING: property=%s class=%s runs=%d %s\n", p.ID, class, v.N, k.What)
			continue
		}
		nviol++
		pending = append(pending, class)
	}
	// shrink each new class in a child process, then replay the minimised case in a fresh process; classes are
	// handled concurrently (one run can show many, e.g. one per pair of racing functions)
	verdicts := make([]verdict, len(pending))
	sem := make(chan struct{}, max(1, j.Workers/2))
	var vwg sync.WaitGroup
	for i, class := range pending {
		vwg.Add(1)
		go func(i int, class string) {
			defer vwg.Done()
			sem <- struct{}{}
			defer func() { <-sem }()
			v := total.Violations[class]
			vd := verdict{class: class}
			cf := filepath.Join(tmp, fmt.Sprintf("viol-%d-%s.json", i, sanitize(class)))
			cb, _ := json.Marshal(v.Case)
			os.WriteFile(cf, cb, 0o644)
			min := v.Case
			if !strings.HasPrefix(class, "process_crash") {
				sj := job{Mode: "shrink", Prop: p.ID, CaseFile: cf, Out: cf + ".min", WantClass: class, BudgetS: 45}
				if out, err := selfExec(sj, 100*time.Second); err != nil && !simrt.RaceEnabled {
					vd.stderr += fmt.Sprintf("harness: shrink failed (%v): %s\n", err, tailStr(string(out), 800))
				}
				if mb, err := os.ReadFile(cf + ".min"); err == nil {
					var mc Case
					if json.Unmarshal(mb, &mc) == nil {
						min = mc
					}
				}
			}
			rp := filepath.Join(j.Replays, fmt.Sprintf("%s-%d-%s.json", p.ID, v.Case.Seed, sanitize(class)))
			os.MkdirAll(j.Replays, 0o755)
			mb, _ := json.MarshalIndent(min, "", " ")
			os.WriteFile(rp, mb, 0o644)
			rj := job{Mode: "run", Prop: p.ID, CaseFile: rp, Out: cf + ".replay"}
			attempts := 1
			if simrt.RaceEnabled {
				// the schedule replays exactly, but the race detector keeps a bounded, randomly evicted access
				// history per memory cell: a report can need more than one execution of the same schedule
				attempts = 4
			}
			var out []byte
			for a := 0; a < attempts && !vd.reproduced; a++ {
				os.Remove(cf + ".replay")
				out, _ = selfExec(rj, 10*time.Minute)
				if strings.HasPrefix(class, "process_crash") {
					_, err := os.Stat(cf + ".replay")
					vd.reproduced = err != nil
				} else if rb, err := os.ReadFile(cf + ".replay"); err == nil {
					var rr Result
					if json.Unmarshal(rb, &rr) == nil && rr.hasClass(class) {
						vd.reproduced = true
					}
				}
			}
			if vd.reproduced {
				vd.stdout = fmt.Sprintf("VIOLATION property=%s replay=%s\n  class=%s seen_in_runs=%d\n  detail=%s\n", p.ID, rp, class, v.N, oneLine(v.Result.Detail, 600))
			} else {
				vd.stderr += fmt.Sprintf("harness: violation class %s did not reproduce from its own replay file %s (determinism hole in the machinery)\n%s\n", class, rp, tailStr(string(out), 800))
			}
			verdicts[i] = vd
		}(i, class)
	}
	vwg.Wait()
	for _, vd := range verdicts {
		fmt.Fprint(os.Stderr, vd.stderr)
		fmt.Print(vd.stdout)
		if vd.reproduced {
			exit = 1
		} else if exit == 0 {
			exit = 2
		}
	}
	if len(total.Infra) > 0 {
		fmt.Fprintf(os.Stderr, "harness: %d runs reported trouble of the machinery itself, e.g. %s\n", len(total.Infra), total.Infra[0])
		if exit == 0 {
			exit = 2
		}
	}
	if len(total.Nondet) > 0 {
		fmt.Fprintf(os.Stderr, "harness: %d determinism re-checks diverged, e.g. %s\n", len(total.Nondet), total.Nondet[0])
		if exit == 0 {
			exit = 2
		}
	}
	wall := time.Since(start).Seconds()
	writeEvidence(p, j, &total, len(fps), len(states), knownSeen, nviol, wall)
	fmt.Printf("%s %s: runs=%d nontrivial_distinct=%d inconclusive=%d violations=%d known=%d wall=%.1fs\n",
		p.ID, j.Tier, total.Runs, len(fps), total.Inconclusive, nviol, len(knownSeen), wall)
	return exit
}

func tailStr(s string, n int) string {
	if len(s) > n {
		return s[len(s)-n:]
	}
	return s
}

func oneLine(s string, n int) string {
	s = strings.ReplaceAll(s, "\n", " | ")
	if len(s) > n {
		s = s[:n] + "…"
	}
	return s
}

func sanitize(s string) string {
	var b strings.Builder
	for _, c := range s {
		if c >= 'a' && c <= 'z' || c >= 'A' && c <= 'Z' || c >= '0' && c <= '9' || c == '_' || c == '-' {
			b.WriteRune(c)
		} else {
			b.WriteByte('_')
		}
	}
	r := b.String()
	if len(r) > 60 {
		r = r[:60]
	}
	return r
}

// crashSignature extracts a stable signature from a dead worker's output.
func crashSignature(out string) string {
	for _, line := range strings.Split(out, "\n") {
		l := strings.TrimSpace(line)
		if strings.HasPrefix(l, "fatal error:") || strings.HasPrefix(l, "panic:") || strings.HasPrefix(l, "WARNING: DATA RACE") {
			return sanitize(l)
		}
	}
	return "unknown"
}

func loadCase(path string) Case {
	b, err := os.ReadFile(path)
	if err != nil {
		fmt.Fprintf(os.Stderr, "harness: %v\n", err)
		os.Exit(2)
	}
	var c Case
	if err := json.Unmarshal(b, &c); err != nil {
		fmt.Fprintf(os.Stderr, "harness: bad case file %s: %v\n", path, err)
		os.Exit(2)
	}
	return c
}

// runOne replays a single case. With Out set it writes the result there (used
// by the driver); otherwise it is the user-facing replay command.
func runOne(t *testing.T, p *Property, j job) int {
	c := loadCase(j.CaseFile)
	res := safeRun(t, p, c)
	for a := 0; simrt.RaceEnabled && j.Out == "" && res.Verdict == "ok" && a < 3; a++ {
		res = safeRun(t, p, c) // see the driver: a race report can need more than one execution of the same schedule
	}
	b, _ := json.MarshalIndent(res, "", " ")
	if j.Out != "" {
		os.WriteFile(j.Out, b, 0o644)
		return 0
	}
	fmt.Printf("%s\n", b)
	if res.Verdict == "violation" {
		fmt.Printf("VIOLATION property=%s replay=%s\n", p.ID, j.CaseFile)
		return 1
	}
	if res.Verdict == "infra" {
		return 2
	}
	return 0
}

// ---------------------------------------------------------------------------
// shrinking

func shrinkJob(t *testing.T, p *Property, j job) {
	c := loadCase(j.CaseFile)
	deadline := time.Now().Add(time.Duration(j.BudgetS) * time.Second)
	tries := 0
	fails := func(x Case) (bool, Result) {
		if time.Now().After(deadline) || tries > 2000 {
			return false, Result{}
		}
		tries++
		r := safeRun(t, p, x)
		return r.hasClass(j.WantClass), r
	}
	ok, res := fails(c)
	if !ok {
		return // not reproducible in-process: keep the original
	}
	best := c
	save := func(x Case) {
		b, _ := json.Marshal(x)
		os.WriteFile(j.Out, b, 0o644)
	}
	inner := fails
	fails = func(x Case) (bool, Result) {
		ok, r := inner(x)
		if ok {
			save(x) // keep the smallest failing case found so far even if this job is cut short
		}
		return ok, r
	}
	// 1. make the schedule explicit, then minimise the preemption list
	if best.Sched != nil && !best.Sched.Explicit && res.PreemptSteps != nil {
		x := best.clone()
		x.Sched.Explicit = true
		x.Sched.Steps = append([]int64(nil), res.PreemptSteps...)
		x.Sched.StallPPM = best.Sched.StallPPM
		x.Sched.HoldMax = best.Sched.HoldMax
		x.Sched.HotPPM = best.Sched.HotPPM
		if ok, _ := fails(x); ok {
			best = x
		}
	}
	// 2. ddmin over ops
	best = ddminOps(best, fails)
	// 3. ddmin over explicit preemption steps
	if best.Sched != nil && best.Sched.Explicit {
		best = ddminSteps(best, fails)
	}
	// 4. property specific simplifications, to a fixpoint
	if p.Simplify != nil {
		for changed := true; changed; {
			changed = false
			for _, x := range p.Simplify(best) {
				if ok, _ := fails(x); ok {
					best = x
					changed = true
					break
				}
			}
		}
		best = ddminOps(best, fails)
	}
	b, _ := json.Marshal(best)
	os.WriteFile(j.Out, b, 0o644)
}

func ddminOps(c Case, fails func(Case) (bool, Result)) Case {
	n := 2
	for len(c.Ops) >= 2 {
		chunk := (len(c.Ops) + n - 1) / n
		reduced := false
		for i := 0; i < len(c.Ops); i += chunk {
			x := c.clone()
			end := i + chunk
			if end > len(c.Ops) {
				end = len(c.Ops)
			}
			x.Ops = append(append([]Op{}, c.Ops[:i]...), c.Ops[end:]...)
			if ok, _ := fails(x); ok {
				c = x
				n = max(n-1, 2)
				reduced = true
				break
			}
		}
		if !reduced {
			if chunk <= 1 {
				break
			}
			n = min(n*2, len(c.Ops))
		}
	}
	return c
}

func ddminSteps(c Case, fails func(Case) (bool, Result)) Case {
	n := 2
	for len(c.Sched.Steps) >= 1 {
		steps := c.Sched.Steps
		chunk := (len(steps) + n - 1) / n
		reduced := false
		for i := 0; i < len(steps); i += chunk {
			x := c.clone()
			end := i + chunk
			if end > len(steps) {
				end = len(steps)
			}
			x.Sched.Steps = append(append([]int64{}, steps[:i]...), steps[end:]...)
			if ok, _ := fails(x); ok {
				c = x
				n = max(n-1, 2)
				reduced = true
				break
			}
		}
		if !reduced {
			if chunk <= 1 {
				break
			}
			n = min(n*2, len(steps))
		}
	}
	return c
}

// ---------------------------------------------------------------------------
// evidence

func writeEvidence(p *Property, j job, s *summary, distinct, states int, known map[string]int, nviol int, wall float64) {
	if j.Evidence == "" {
		return
	}
	cov := map[string]any{
		"evaluations":         s.Runs,
		"distinct_nontrivial": distinct,
		"nontrivial_runs":     s.Nontrivial,
		"rule":                p.Rule,
		"samples":             s.Samples,
		"inconclusive":        s.Inconclusive,
		"counters":            s.Counters,
		"runs_per_hour":       int(float64(s.Runs) / wall * 3600),
		"simulated_seconds":   float64(s.SimNanos) / 1e9,
		"workers":             j.Workers,
		"components_real":     p.Real,
		"components_stub":     p.Stub,
		"known_findings_seen": known,
		"exhaustive":          false,
	}
	if states > 0 {
		cov["distinct_abstract_states"] = states
	}
	if len(s.IncSamples) > 0 {
		cov["inconclusive_samples"] = s.IncSamples[:min(3, len(s.IncSamples))]
	}
	if len(s.Samples) == 0 {
		cov["samples"] = []string{"(no non-trivial sample small enough to print)"}
	}
	ev := map[string]any{
		"property_id": p.ID,
		"tier":        j.Tier,
		"seed":        j.Seed,
		"level":       p.Level,
		"coverage":    cov,
		"assumptions": p.Assumptions,
		"wall_s":      wall,
		"violations":  nviol,
	}
	b, _ := json.MarshalIndent(ev, "", " ")
	os.MkdirAll(filepath.Dir(j.Evidence), 0o755)
	if err := os.WriteFile(j.Evidence, b, 0o644); err != nil {
		fmt.Fprintf(os.Stderr, "harness: cannot write evidence: %v\n", err)
	}
}
