package zzharness

import (
	"strings"
	"reflect"
	"fmt"
	"sort"
	"testing"
	"time"

	hydrapb "github.com/hydraide/hydraide/sdk/go/hydraidego/v3/hydraidepbgo"
	"github.com/hydraide/hydraide/app/zzsim/simdisk"
	"github.com/hydraide/hydraide/app/zzsim/simrt"
)

// C05 — close and reload preserve every record exactly.
// C06 — the single-client API behaves like a simple key-value model.
//
// One client issues requests one at a time against the real gateway handlers
// of an in-process server on the simulated disk; the simulated clock is
// advanced between requests so that write ticks, idle closes and re-opens
// happen; the server is restarted (graceful stop + new incarnation). Every
// response is compared with the reference model.

var gwReal = []string{"gateway handlers (Set/Get/GetAll/GetByKeys/Delete/Count/IsSwampExist/IsKeyExist/AreKeysExist/ShiftByKeys/Destroy/IncrementInt64/Uint32Slice*)", "zeus", "hydra (SummonSwamp, GracefulStop)", "swamp (beacons, SaveFunction, write/close listeners)", "treasure + guard", "vigil", "safeops", "settings", "chronicler V2 + v2 writer/reader/compactor", "name"}
var gwStub = []string{"gRPC transport, TLS, interceptors (handlers are called directly)", "OS file system (simdisk)", "clock (synctest fake time)", "Go scheduler (simrt, seeded)", "sync/atomic primitives (shims)", "telemetry/observer (nil)"}

func init() {
	register(&Property{
		ID:    "C05",
		Level: "exploration",
		Rule: "cases = seeded sequential histories (<=40 requests) of Set over all 15 content kinds with zero and extreme values and created/updated/expiry metadata, IncrementInt64, Uint32 push/delete, Delete on persistent swamps (write interval 0 or 1s), " +
			"interleaved with idle evictions (clock advanced past close-after-idle), graceful restarts and requests issued at the very instant of the swamp's periodic flush (seeded preemption between the two); after every close the full GetAll snapshot is compared with the snapshot before and with the model; " +
			"non-trivial = at least one close+reload with at least one record; distinct = hash of (request kinds, value kinds stored, close kinds, final state)",
		Gen: func(seed uint64, tier string) Case { return genGW(seed, tier, "C05") },
		Run: runGW,
		Sim: true,
		Assumptions: []string{"timestamps are compared at nanosecond precision as returned by the API"},
		Real:        gwReal,
		Stub:        gwStub,
	})
	register(&Property{
		ID:    "C06",
		Level: "exploration",
		Rule: "cases = seeded sequential histories (<=60 requests) mixing every non-streaming data RPC over 2 swamps x 4 keys, on in-memory and persistent swamps, with clock advances (write ticks, idle close, reopen) and restarts; every response is compared with a reference key-value model " +
			"and every request must return within 120 simulated seconds; non-trivial = at least 3 RPC families mixed; distinct = hash of (request sequence kinds, final state)",
		Gen: func(seed uint64, tier string) Case { return genGW(seed, tier, "C06") },
		Run: runGW,
		Sim: true,
		Assumptions: []string{"where the documentation leaves a status open (UPDATED vs NOTHING_CHANGED for a save of an identical value; existence of a swamp that was summoned but never held a record) both answers are accepted",
			"Set of a uint32 set on a key holding another type, and Set void over a typed value, are not generated (semantics undocumented)"},
		Real: gwReal,
		Stub: gwStub,
	})
}

var gwSwamps = []string{"verif/per/alpha", "verif/per/beta", "verif/mem/gamma"}

func genGW(seed uint64, tier string, prop string) Case {
	r := newRng(seed, "gw"+prop)
	c := Case{Prop: prop, Seed: seed, Cfg: map[string]int64{}}
	c.Cfg["write_interval"] = int64(r.intn(2)) // 0: immediate write mode, 1: one second ticker
	c.Cfg["idle"] = int64(1 + r.intn(2))
	nops := 3 + r.intn(38)
	if prop == "C06" {
		nops = 3 + r.intn(58)
	}
	if tier == "thorough" {
		nops += r.intn(60)
	}
	nsw := 2
	if prop == "C06" {
		nsw = 3
	}
	key := func() int64 { return int64(r.intn(4)) }
	forced, synced := int64(-1), false
	for i := 0; i < nops; i++ {
		sw := int64(r.intn(nsw))
		var pick int
		if prop == "C05" {
			pick = r.pick(50, 6, 4, 8, 0, 0, 0, 0, 6, 5, 4, 0, 0, 0, 9, 6, 2, 10, 8)
		} else {
			pick = r.pick(26, 8, 5, 8, 4, 4, 4, 4, 7, 5, 4, 3, 3, 2, 5, 3, 5, 4, 3)
		}
		if forced >= 0 {
			sw, forced = forced, -1
			if pick >= 14 {
				pick = 0
			}
		}
		switch pick {
		case 18:
			// wait for the instant of the swamp's next periodic flush: the request after this one (same swamp)
			// runs while the write ticker's flush is in progress
			c.Ops = append(c.Ops, Op{K: "ticksync", A: []int64{sw}})
			forced, synced = sw, true
		case 17:
			// a metadata-only PatchTreasures on a msgpack-bodied record (the body is rewritten with the value it has)
			c.Ops = append(c.Ops, Op{K: "pmeta", A: []int64{sw, key(), int64(r.intn(6)), int64(1 + r.intn(3))}})
		case 0:
			kind := int64(r.intn(len(valueKinds)))
			meta := int64(r.intn(32))
			if r.chance(1, 2) {
				meta = 0
			}
			create, over := int64(1), int64(1)
			if r.chance(1, 5) {
				create = int64(r.intn(2))
				over = int64(r.intn(2))
			}
			c.Ops = append(c.Ops, Op{K: "set", A: []int64{sw, key(), kind, int64(r.intn(6)), create, over, meta, int64(r.intn(5))}})
		case 1:
			c.Ops = append(c.Ops, Op{K: "get", A: []int64{sw, key()}})
		case 2:
			c.Ops = append(c.Ops, Op{K: "getbykeys", A: []int64{sw, key(), key()}})
		case 3:
			c.Ops = append(c.Ops, Op{K: "snapshot", A: []int64{sw}})
		case 4:
			c.Ops = append(c.Ops, Op{K: "count", A: []int64{sw}})
		case 5:
			c.Ops = append(c.Ops, Op{K: "exist_swamp", A: []int64{sw}})
		case 6:
			c.Ops = append(c.Ops, Op{K: "exist_key", A: []int64{sw, key()}})
		case 7:
			c.Ops = append(c.Ops, Op{K: "are_keys", A: []int64{sw, key(), key()}})
		case 8:
			c.Ops = append(c.Ops, Op{K: "del", A: []int64{sw, key(), key()}})
			if r.chance(1, 4) {
				// remove, re-create and remove the same key again in one go (within one write interval when there is one)
				k := c.Ops[len(c.Ops)-1].A[1]
				c.Ops = append(c.Ops, Op{K: "set", A: []int64{sw, k, int64(r.intn(len(valueKinds))), int64(r.intn(6)), 1, 1, 0, 0}})
				c.Ops = append(c.Ops, Op{K: "del", A: []int64{sw, k, k}})
			}
		case 9:
			cond := int64(0)
			if r.chance(1, 3) {
				cond = int64(1 + r.intn(6))
			}
			by := int64(r.intn(7)) - 3
			if by == 0 {
				by = 5
			}
			ti := int64(3) // int64
			if r.chance(1, 2) {
				ti = int64(r.intn(len(incKinds)))
			}
			c.Ops = append(c.Ops, Op{K: "inc", A: []int64{sw, key(), by, cond, int64(r.intn(5)) - 2, int64(r.intn(4)), ti}})
		case 10:
			c.Ops = append(c.Ops, Op{K: "spush", A: []int64{sw, key(), int64(1 + r.intn(6))}})
		case 11:
			c.Ops = append(c.Ops, Op{K: "sdel", A: []int64{sw, key(), int64(1 + r.intn(4))}})
		case 12:
			c.Ops = append(c.Ops, Op{K: "ssize", A: []int64{sw, key()}})
		case 13:
			c.Ops = append(c.Ops, Op{K: "shift", A: []int64{sw, key(), key()}})
		case 14:
			c.Ops = append(c.Ops, Op{K: "idle"})
		case 15:
			c.Ops = append(c.Ops, Op{K: "restart"})
		default:
			if r.chance(1, 3) {
				c.Ops = append(c.Ops, Op{K: "destroy", A: []int64{sw}})
			} else {
				c.Ops = append(c.Ops, Op{K: "tick", A: []int64{int64(100 + r.intn(1500))}})
			}
		}
	}
	c.Sched = &Sched{Seed: r.next()} // sequential client: no preemption, the clock drives the tickers
	if synced && c.Cfg["write_interval"] > 0 {
		c.Sched = genSched(r) // the request and the flush it coincides with interleave at seeded points
	}
	return c
}

const gwBase = int64(946684800_000000000) // synctest bubbles start at 2000-01-01T00:00:00Z

type gwRun struct {
	c        Case
	res      *Result
	disk     *simdisk.Disk
	srv      *simServer
	cl       *gwClient
	model    map[string]mswamp
	touched  map[string]bool // summoned while empty: existence answers are not pinned down
	wi, idle int64
	kinds    []string
	families map[string]bool
	closes   int
	stored   map[string]bool
	openedAt map[string]int64 // simulated instant of the first request since the swamp was last known closed: the phase of its write ticker
}

func (g *gwRun) start() {
	g.srv = startServer(g.disk, g.idle, g.wi)
	g.cl = &gwClient{srv: g.srv, island: 1, timeout: 120 * time.Second}
	g.cl.register("verif/per/*", false, g.idle, g.wi)
	g.cl.register("verif/mem/*", true, 3600, 0)
}

func (g *gwRun) fail(class, f string, a ...any) *Result {
	v := violation(class, f, a...)
	return &v
}

func isMem(sw string) bool { return sw == "verif/mem/gamma" }

func (g *gwRun) sw(i int64) string { return gwSwamps[int(i)%len(gwSwamps)] }
func keyName(i int64) string       { return fmt.Sprintf("k%d", i) }

// applySet computes what a Set item stores, given the old record (or nil).
func applySet(old *mrec, val *mrec, meta int64, tsSel int64, now int64) *mrec {
	n := val.clone()
	if old != nil {
		n.CreatedAt, n.UpdatedAt, n.ExpiredAt, n.CreatedBy, n.UpdatedBy = old.CreatedAt, old.UpdatedAt, old.ExpiredAt, old.CreatedBy, old.UpdatedBy
		if old.Kind == "slice" && val.Kind == "slice" {
			n.Slice = dedupU32(append(append([]uint32{}, old.Slice...), val.Slice...))
		}
	}
	off := []int64{-3600, -1, 1, 3600, 86400 * 365}[tsSel%5] * int64(time.Second)
	if meta&1 != 0 {
		n.CreatedAt = now + off
	}
	if meta&2 != 0 {
		n.UpdatedAt = now + off + 1
	}
	if meta&4 != 0 {
		n.ExpiredAt = now + off + 2
	}
	if meta&8 != 0 {
		n.CreatedBy = "creator"
	}
	if meta&16 != 0 {
		n.UpdatedBy = "updater"
	}
	return n
}

func runGW(t *testing.T, c Case) (res Result) {
	g := &gwRun{c: c, res: &res, disk: simdisk.New(), model: map[string]mswamp{}, touched: map[string]bool{}, families: map[string]bool{}, stored: map[string]bool{},
		wi: c.cfg("write_interval", 1), idle: c.cfg("idle", 2), openedAt: map[string]int64{}}
	g.disk.OnOp = func(seq int, kind int, p string) {
		if kind == simdisk.OpWrite && g.wi > 0 && g.cl != nil && g.cl.inflight > 0 {
			res.count("file_writes_of_a_periodic_flush_during_a_request", 1)
		}
	}
	var v *Result
	out := runSim(t, c.Sched, func() {
		g.start()
		for i, op := range c.Ops {
			if v = g.step(i, op); v != nil {
				return
			}
			if g.cl.hung != "" {
				v = g.fail("request_never_returns_"+g.cl.hung, "op %d (%s %v): the %s request had not returned after 120 simulated seconds", i, op.K, op.A, g.cl.hung)
				return
			}
			if simrt.Aborted() {
				return
			}
		}
		// final: close everything by restart and compare all persistent swamps
		if v = g.restart(len(c.Ops)); v != nil {
			return
		}
		if !g.srv.stop(5 * time.Minute) {
			v = g.fail("graceful_stop_never_returns", "StopHydra had not returned after 5 simulated minutes at the end of the run")
		}
	})
	res.SimNanos = out.stats.SimNanos
	res.TraceHash = fnv(out.stats.Hash, g.disk.Stats().BytesWritten)
	res.count("sched_steps", out.stats.Steps)
	res.count("closes_and_reloads", int64(g.closes))
	for k := range g.stored {
		res.count("stored_kind:"+k, 1)
	}
	if out.rootPanic != "" {
		return violation("harness_panic", "root: %s", out.rootPanic)
	}
	if out.escaped != "" {
		return violation("server_goroutine_panic", "a server goroutine panicked (the process would die): %s", oneLine(out.escaped, 500))
	}
	if v != nil {
		v.Counters, v.SimNanos, v.TraceHash = res.Counters, res.SimNanos, res.TraceHash
		return *v
	}
	if e := g.srv.logs.find("grpc gateway panic"); e != "" {
		return violation("request_panicked", "a request handler panicked (recovered into an empty response): %s", oneLine(e, 400))
	}
	if out.aborted || out.stats.OverBudget {
		return Result{Verdict: "inconclusive", Detail: "scheduler budget exhausted"}
	}
	if !benignBubbleEnd(out.bubblePanic) {
		return Result{Verdict: "inconclusive", Detail: "bubble: " + out.bubblePanic}
	}
	res.Verdict = "ok"
	if c.Prop == "C05" {
		res.Nontrivial = g.closes > 0 && len(g.stored) > 0
	} else {
		res.Nontrivial = len(g.families) >= 3
	}
	var st []string
	for _, sw := range gwSwamps {
		var ks []string
		for k, r := range g.model[sw] {
			ks = append(ks, k+"="+r.valueString())
		}
		sort.Strings(ks)
		st = append(st, fmt.Sprint(ks))
	}
	res.Fingerprint = fnv(g.kinds, st, g.wi)
	res.States = []uint64{fnv(st)}
	return res
}

func (g *gwRun) now() int64 { return time.Now().UnixNano() }

// checkAll compares every persistent swamp (and optionally the in-memory one) with the model.
func (g *gwRun) checkAll(i int, when string, includeMem bool) *Result {
	for _, sw := range gwSwamps {
		if isMem(sw) && !includeMem {
			continue
		}
		want := g.model[sw]
		if len(want) == 0 {
			continue
		}
		got, err := g.cl.snapshot(sw)
		if g.cl.hung != "" {
			return nil
		}
		if err != nil {
			return g.fail("swamp_lost_after_"+when, "op %d: after %s swamp %s cannot be read (%v) although the model holds %d records", i, when, sw, err, len(want))
		}
		if cl, det := compareSwamp(got, want); cl != "" {
			return g.fail(cl+"_after_"+when, "op %d: after %s, swamp %s: %s", i, when, sw, det)
		}
	}
	return nil
}

func (g *gwRun) restart(i int) *Result {
	if !g.srv.stop(5 * time.Minute) {
		return g.fail("graceful_stop_never_returns", "op %d: StopHydra had not returned after 5 simulated minutes", i)
	}
	g.closes++
	delete(g.model, "verif/mem/gamma")
	g.touched = map[string]bool{}
	g.openedAt = map[string]int64{}
	g.start()
	return g.checkAll(i, "restart", false)
}

func (g *gwRun) step(i int, op Op) *Result {
	g.kinds = append(g.kinds, op.K)
	cl := g.cl
	switch op.K {
	case "tick":
		simrt.Sleep(time.Duration(op.A[0]) * time.Millisecond)
		return nil
	case "ticksync":
		if t0, ok := g.openedAt[g.sw(op.A[0])]; ok && g.wi > 0 {
			period := g.wi * int64(time.Second)
			simrt.Sleep(time.Duration(period - (g.now()-t0)%period))
			g.res.count("requests_issued_at_a_write_tick_instant", 1)
		}
		return nil
	case "idle":
		// no interaction for longer than close-after-idle (+ the 1s listener period): persistent swamps are evicted
		simrt.Sleep(time.Duration(g.idle+3) * time.Second)
		g.closes++
		g.touched = map[string]bool{}
		g.openedAt = map[string]int64{}
		return g.checkAll(i, "idle_eviction", true)
	case "restart":
		return g.restart(i)
	}
	sw := g.sw(op.A[0])
	m := g.model[sw]
	exists := len(m) > 0
	if !exists {
		g.touched[sw] = true
	}
	if _, ok := g.openedAt[sw]; !ok {
		g.openedAt[sw] = g.now()
	}
	defer func() {
		if len(g.model[sw]) == 0 {
			delete(g.openedAt, sw) // destroyed (or never created): the next request summons a new instance
		}
	}()
	ensure := func() mswamp {
		if g.model[sw] == nil {
			g.model[sw] = mswamp{}
		}
		return g.model[sw]
	}
	dropIfEmpty := func() {
		if len(g.model[sw]) == 0 {
			delete(g.model, sw)
		}
	}
	switch op.K {
	case "set":
		g.families["set"] = true
		key := keyName(op.A[1])
		kind := valueKinds[int(op.A[2])%len(valueKinds)]
		val := genValue(kind, op.A[3])
		create, over := op.A[4] == 1, op.A[5] == 1
		old := m[key]
		if kind == "slice" && (len(val.Slice) == 0 || (old != nil && old.Kind != "slice")) {
			kind, val = "int32", genValue("int32", op.A[3])
		}
		if kind == "void" && old != nil && old.Kind != "void" {
			kind, val = "string", genValue("string", op.A[3])
		}
		n := applySet(old, val, op.A[6], op.A[7], g.now())
		resp, err := cl.set(sw, []*hydrapb.KeyValuePair{toKV(key, applySetRequest(val, op.A[6], op.A[7], g.now()))}, create, over)
		if cl.hung != "" {
			return nil
		}
		if err != nil {
			return g.fail("set_error", "op %d: Set(%s,%s,%s) returned error %v", i, sw, key, val.valueString(), err)
		}
		if resp == nil || len(resp.Swamps) != 1 {
			return g.fail("set_malformed_response", "op %d: Set returned %v", i, resp)
		}
		sr := resp.Swamps[0]
		switch {
		case !create && !over:
			if sr.ErrorCode == nil || *sr.ErrorCode != hydrapb.SwampResponse_CanNotBeExecuted {
				return g.fail("set_flags_status", "op %d: Set with CreateIfNotExist=false and Overwrite=false must answer CanNotBeExecuted, got %v", i, sr)
			}
			return nil
		case !create && !exists:
			if g.touched[sw] {
				// the swamp may exist as an empty in-memory object: both answers are possible
				if sr.ErrorCode != nil {
					return nil
				}
			} else if sr.ErrorCode == nil || *sr.ErrorCode != hydrapb.SwampResponse_SwampDoesNotExist {
				return g.fail("set_on_missing_swamp_status", "op %d: Set with CreateIfNotExist=false on a swamp that does not exist must answer SwampDoesNotExist, got %v", i, sr)
			} else {
				return nil
			}
		}
		if len(sr.KeysAndStatuses) != 1 {
			return g.fail("set_malformed_response", "op %d: Set returned %d statuses for 1 key", i, len(sr.KeysAndStatuses))
		}
		st := sr.KeysAndStatuses[0].Status
		switch {
		case !create && old == nil:
			if st != hydrapb.Status_NOT_FOUND {
				return g.fail("set_status", "op %d: Set(create=false) of missing key answered %v, want NOT_FOUND", i, st)
			}
		case !over && old != nil:
			if st != hydrapb.Status_NOTHING_CHANGED {
				return g.fail("set_status", "op %d: Set(overwrite=false) of existing key answered %v, want NOTHING_CHANGED", i, st)
			}
		case old == nil:
			if st != hydrapb.Status_NEW {
				return g.fail("set_status", "op %d: Set of new key answered %v, want NEW", i, st)
			}
			ensure()[key] = n
			g.stored[kind] = true
		default:
			if st != hydrapb.Status_UPDATED && st != hydrapb.Status_NOTHING_CHANGED {
				return g.fail("set_status", "op %d: Set overwriting a key answered %v, want UPDATED (or NOTHING_CHANGED)", i, st)
			}
			if cl, _ := sameRecord(n, old); cl != "" && st == hydrapb.Status_NOTHING_CHANGED {
				return g.fail("set_status_nothing_changed_but_value_differs", "op %d: Set(%s) over %s answered NOTHING_CHANGED", i, n, old)
			}
			ensure()[key] = n
			g.stored[kind] = true
		}
	case "pmeta":
		key := keyName(op.A[1])
		old := m[key]
		if old == nil || old.Kind != "bytes" || len(old.B) < 3 || old.B[0] != 0xC7 || old.B[1] != 0x00 {
			// make it a body record first (Set of the msgpack body, no metadata), then patch it
			val := genValue("bytes", 4)
			if old != nil && old.Kind == "slice" {
				return nil
			}
			n := applySet(old, val, 0, 0, g.now())
			if _, err := cl.set(sw, []*hydrapb.KeyValuePair{toKV(key, val)}, true, true); err != nil || cl.hung != "" {
				return nil
			}
			ensure()[key] = n
			old = n
			g.stored["bytes"] = true
		}
		g.families["patch"] = true
		meta := &hydrapb.PatchMeta{}
		n := old.clone()
		now := g.now()
		switch op.A[2] {
		case 0:
			by := fmt.Sprintf("patcher%d", op.A[3])
			meta.SetUpdatedBy = &by
			n.UpdatedBy = by
		case 1:
			e := now + op.A[3]*int64(time.Hour)
			meta.SetExpiredAt = ts(e)
			n.ExpiredAt = e
		case 2:
			meta.ClearExpiredAt = true
			n.ExpiredAt = 0
		case 3:
			e := now - op.A[3]*int64(time.Hour)
			meta.SetExpiredAt = ts(e)
			n.ExpiredAt = e
		case 4:
			meta.SetUpdatedAt = true
			n.UpdatedAt = now
		default:
			by := fmt.Sprintf("patcher%d", op.A[3])
			meta.SetUpdatedBy = &by
			meta.ClearExpiredAt = true
			n.UpdatedBy, n.ExpiredAt = by, 0
		}
		var resp *hydrapb.PatchTreasuresResponse
		var err error
		cl.call("PatchTreasures", func() {
			resp, err = cl.srv.gw.PatchTreasures(ctxBg, &hydrapb.PatchTreasuresRequest{IslandID: cl.island, SwampName: sw,
				Patches: []*hydrapb.TreasurePatch{{Key: key, Ops: []*hydrapb.PatchOp{{Op: hydrapb.PatchOp_SET, Path: "n", Value: []byte{0x01}}}, Meta: meta}}})
		})
		if cl.hung != "" {
			return nil
		}
		if err != nil || resp == nil || len(resp.Results) != 1 {
			return g.fail("patch_error", "op %d: PatchTreasures(%s,%s, meta %v) returned %v / %v", i, sw, key, meta, resp, err)
		}
		if st := resp.Results[0].Status; st != hydrapb.PatchResult_PATCHED {
			return g.fail("patch_status", "op %d: PatchTreasures(%s,%s) on an existing msgpack body answered %v, want PATCHED", i, sw, key, st)
		}
		ensure()[key] = n
	case "get":
		g.families["get"] = true
		key := keyName(op.A[1])
		resp, err := cl.get(sw, []string{key})
		if cl.hung != "" {
			return nil
		}
		if !exists {
			if err == nil && !g.touched[sw] && resp != nil && len(resp.Swamps) == 1 && resp.Swamps[0].IsExist {
				return g.fail("get_missing_swamp_exists", "op %d: Get on swamp %s that holds nothing reports IsExist=true", i, sw)
			}
			return nil
		}
		if err != nil || resp == nil || len(resp.Swamps) != 1 || len(resp.Swamps[0].Treasures) != 1 {
			return g.fail("get_error", "op %d: Get(%s,%s) = %v, %v", i, sw, key, resp, err)
		}
		tr := resp.Swamps[0].Treasures[0]
		want := m[key]
		if (want != nil) != tr.IsExist {
			return g.fail("get_existence", "op %d: Get(%s,%s).IsExist=%v, model says %v", i, sw, key, tr.IsExist, want != nil)
		}
		if want != nil {
			if cl, det := sameRecord(fromTreasure(tr), want); cl != "" {
				return g.fail("get_"+cl, "op %d: Get(%s,%s): %s", i, sw, key, det)
			}
		}
	case "getbykeys":
		g.families["get"] = true
		keys := []string{keyName(op.A[1]), keyName(op.A[2])}
		resp, err := cl.getByKeys(sw, keys)
		if cl.hung != "" || !exists {
			return nil
		}
		if err != nil {
			return g.fail("getbykeys_error", "op %d: GetByKeys(%s,%v): %v", i, sw, keys, err)
		}
		wantKeys := map[string]bool{}
		for _, k := range keys {
			if m[k] != nil {
				wantKeys[k] = true
			}
		}
		seen := map[string]bool{}
		for _, tr := range resp.Treasures {
			if m[tr.Key] == nil || !wantKeys[tr.Key] {
				return g.fail("getbykeys_unexpected_key", "op %d: GetByKeys returned %q", i, tr.Key)
			}
			seen[tr.Key] = true
			if cl, det := sameRecord(fromTreasure(tr), m[tr.Key]); cl != "" {
				return g.fail("getbykeys_"+cl, "op %d: GetByKeys(%s,%s): %s", i, sw, tr.Key, det)
			}
		}
		if len(seen) != len(wantKeys) {
			return g.fail("getbykeys_missing_key", "op %d: GetByKeys(%v) returned %d of %d existing keys", i, keys, len(seen), len(wantKeys))
		}
	case "snapshot":
		g.families["get"] = true
		if !exists {
			return nil
		}
		got, err := cl.snapshot(sw)
		if cl.hung != "" {
			return nil
		}
		if err != nil {
			return g.fail("getall_error", "op %d: GetAll(%s): %v", i, sw, err)
		}
		if cl, det := compareSwamp(got, m); cl != "" {
			return g.fail("getall_"+cl, "op %d: GetAll(%s): %s", i, sw, det)
		}
	case "count":
		g.families["count"] = true
		resp, err := cl.count(sw)
		if cl.hung != "" {
			return nil
		}
		if !exists {
			if err == nil && resp != nil && len(resp.Swamps) == 1 && resp.Swamps[0].Count != 0 {
				return g.fail("count_wrong", "op %d: Count(%s)=%d for a swamp holding nothing", i, sw, resp.Swamps[0].Count)
			}
			return nil
		}
		if err != nil || resp == nil || len(resp.Swamps) != 1 {
			return g.fail("count_error", "op %d: Count(%s): %v %v", i, sw, resp, err)
		}
		if int(resp.Swamps[0].Count) != len(m) || !resp.Swamps[0].IsExist {
			return g.fail("count_wrong", "op %d: Count(%s)=%d exist=%v, model has %d", i, sw, resp.Swamps[0].Count, resp.Swamps[0].IsExist, len(m))
		}
	case "exist_swamp":
		g.families["exist"] = true
		ex, err := cl.isSwampExist(sw)
		if cl.hung != "" {
			return nil
		}
		if err != nil {
			return g.fail("exist_error", "op %d: IsSwampExist(%s): %v", i, sw, err)
		}
		if exists && !ex {
			return g.fail("swamp_existence", "op %d: IsSwampExist(%s)=false although it holds %d records", i, sw, len(m))
		}
		if !exists && ex && !g.touched[sw] {
			return g.fail("swamp_existence", "op %d: IsSwampExist(%s)=true although it holds no record", i, sw)
		}
	case "exist_key":
		g.families["exist"] = true
		key := keyName(op.A[1])
		ex, err := cl.isKeyExist(sw, key)
		if cl.hung != "" || !exists {
			return nil
		}
		if err != nil {
			return g.fail("exist_error", "op %d: IsKeyExist(%s,%s): %v", i, sw, key, err)
		}
		if ex != (m[key] != nil) {
			return g.fail("key_existence", "op %d: IsKeyExist(%s,%s)=%v, model says %v", i, sw, key, ex, m[key] != nil)
		}
	case "are_keys":
		g.families["exist"] = true
		keys := []string{keyName(op.A[1]), keyName(op.A[2])}
		r, err := cl.areKeysExist(sw, keys)
		if cl.hung != "" || !exists {
			return nil
		}
		if err != nil {
			return g.fail("exist_error", "op %d: AreKeysExist(%s,%v): %v", i, sw, keys, err)
		}
		for _, k := range keys {
			if r[k] != (m[k] != nil) {
				return g.fail("key_existence", "op %d: AreKeysExist(%s)[%s]=%v, model says %v", i, sw, k, r[k], m[k] != nil)
			}
		}
	case "del":
		g.families["delete"] = true
		keys := []string{keyName(op.A[1]), keyName(op.A[2])}
		resp, err := cl.del(sw, keys)
		if cl.hung != "" {
			return nil
		}
		if err != nil || resp == nil || len(resp.Responses) != 1 {
			return g.fail("delete_error", "op %d: Delete(%s,%v): %v %v", i, sw, keys, resp, err)
		}
		dr := resp.Responses[0]
		if !exists {
			if dr.ErrorCode == nil && !g.touched[sw] {
				return g.fail("delete_on_missing_swamp", "op %d: Delete on swamp %s holding nothing did not answer SwampDoesNotExist", i, sw)
			}
			return nil
		}
		if dr.ErrorCode != nil || len(dr.KeyStatuses) != len(keys) {
			return g.fail("delete_error", "op %d: Delete(%s,%v) answered %v", i, sw, keys, dr)
		}
		for j, k := range keys {
			want := hydrapb.Status_NOT_FOUND
			if g.model[sw][k] != nil {
				want = hydrapb.Status_DELETED
				delete(g.model[sw], k)
			}
			if dr.KeyStatuses[j].Status != want {
				return g.fail("delete_status", "op %d: Delete(%s,%s) answered %v, want %v", i, sw, k, dr.KeyStatuses[j].Status, want)
			}
		}
		dropIfEmpty()
	case "shift":
		g.families["shift"] = true
		// a key may be named twice: the first mention takes the record, the second finds nothing
		keys := []string{keyName(op.A[1]), keyName(op.A[2])}
		resp, err := cl.shiftByKeys(sw, keys)
		if cl.hung != "" || !exists {
			return nil
		}
		if err != nil {
			return g.fail("shift_error", "op %d: ShiftByKeys(%s,%v): %v", i, sw, keys, err)
		}
		var wantKeys []string
		taken := map[string]bool{}
		for _, k := range keys {
			if m[k] != nil && !taken[k] {
				wantKeys = append(wantKeys, k)
				taken[k] = true
			}
		}
		if len(resp.Treasures) != len(wantKeys) {
			return g.fail("shift_wrong_records", "op %d: ShiftByKeys(%v) returned %d records, model expects %v", i, keys, len(resp.Treasures), wantKeys)
		}
		for j, tr := range resp.Treasures {
			if tr.Key != wantKeys[j] {
				return g.fail("shift_wrong_records", "op %d: ShiftByKeys(%v) returned key %q at %d, want %q", i, keys, tr.Key, j, wantKeys[j])
			}
			if cl, det := sameRecord(fromTreasure(tr), m[tr.Key]); cl != "" {
				return g.fail("shift_"+cl, "op %d: ShiftByKeys(%s): %s", i, tr.Key, det)
			}
			delete(g.model[sw], tr.Key)
		}
		dropIfEmpty()
	case "destroy":
		g.families["destroy"] = true
		err := cl.destroy(sw)
		if cl.hung != "" {
			return nil
		}
		if err != nil {
			return g.fail("destroy_error", "op %d: Destroy(%s): %v", i, sw, err)
		}
		delete(g.model, sw)
		delete(g.touched, sw)
	case "inc":
		g.families["increment"] = true
		key := keyName(op.A[1])
		by, condOp, condVal, meta := op.A[2], op.A[3], op.A[4], op.A[5]
		kind := "int64"
		if len(op.A) > 6 {
			kind = incKinds[int(op.A[6])%len(incKinds)]
		}
		if kind[0] == 'u' {
			// unsigned counters: the request cannot carry a negative step or reference value
			if by < 0 {
				by = -by
			}
			if condVal < 0 {
				condVal = -condVal
			}
		}
		old := m[key]
		var ifNot, ifEx *hydrapb.IncrementRequestMetadata
		if meta&1 != 0 {
			s := "inc-creator"
			ifNot = &hydrapb.IncrementRequestMetadata{CreatedBy: &s}
		}
		if meta&2 != 0 {
			s := "inc-updater"
			ifEx = &hydrapb.IncrementRequestMetadata{UpdatedBy: &s}
		}
		got, incremented, err := cl.incAny(kind, sw, key, by, condOp, condVal, ifNot, ifEx)
		if cl.hung != "" {
			return nil
		}
		if old != nil && old.Kind != kind && old.Kind != "void" {
			if err == nil {
				return g.fail("increment_on_wrong_type_succeeded", "op %d: Increment(%s) on key %s holding %s returned success", i, kind, key, old.valueString())
			}
			return nil
		}
		if err != nil || got == nil {
			return g.fail("increment_error", "op %d: Increment(%s)(%s,%s,%d): %v", i, kind, sw, key, by, err)
		}
		cur := &mrec{Kind: kind}
		if old != nil && old.Kind == kind {
			cur = old
		}
		pass := condOp == 0 || incRelHolds(hydrapb.Relational_Operator(condOp-1), cur, condVal)
		if incremented != pass {
			return g.fail("increment_condition", "op %d: Increment(%s)(%s by %d, cond op %d val %d) on current %s: IsIncremented=%v, model says %v", i, kind, key, by, condOp, condVal, cur.valueString(), incremented, pass)
		}
		if pass {
			n := incApply(cur, by)
			if got.valueString() != n.valueString() {
				return g.fail("increment_value", "op %d: Increment(%s)(%s by %d) on %s returned %s, want %s", i, kind, key, by, cur.valueString(), got.valueString(), n.valueString())
			}
			if old != nil {
				n.CreatedAt, n.UpdatedAt, n.ExpiredAt, n.CreatedBy, n.UpdatedBy = old.CreatedAt, old.UpdatedAt, old.ExpiredAt, old.CreatedBy, old.UpdatedBy
			}
			if (old == nil || old.Kind == "void") && ifNot != nil {
				n.CreatedBy = "inc-creator"
			}
			if old != nil && old.Kind == kind && ifEx != nil {
				n.UpdatedBy = "inc-updater"
			}
			ensure()[key] = n
			g.stored[kind] = true
		} else if got.valueString() != cur.valueString() {
			return g.fail("increment_value", "op %d: Increment(%s) with unmet condition returned %s, current value is %s", i, kind, got.valueString(), cur.valueString())
		}
	case "spush":
		g.families["uint32slice"] = true
		key := keyName(op.A[1])
		old := m[key]
		if old != nil && old.Kind != "slice" {
			return nil // pushing onto another type is not generated
		}
		// the pushed list as a client may send it: a value can be named more than once (the set keeps it once)
		vals := [][]uint32{{}, {0}, {1, 2, 3}, {7, 7, 9}, {4294967295}, {5, 5}, {2, 8, 2, 8}}[int(op.A[2])%7]
		err := cl.slicePush(sw, key, vals)
		if cl.hung != "" {
			return nil
		}
		if err != nil {
			return g.fail("slice_push_error", "op %d: Uint32SlicePush(%s,%s,%v): %v", i, sw, key, vals, err)
		}
		n := &mrec{Kind: "slice"}
		if old != nil {
			n = old.clone()
		}
		n.Slice = dedupU32(append(n.Slice, vals...))
		ensure()[key] = n
		g.stored["slice"] = true
	case "sdel":
		g.families["uint32slice"] = true
		key := keyName(op.A[1])
		old := m[key]
		if old != nil && old.Kind != "slice" {
			return nil
		}
		vals := genValue("slice", op.A[2]).Slice
		err := cl.sliceDelete(sw, key, vals)
		if cl.hung != "" {
			return nil
		}
		if err != nil {
			return g.fail("slice_delete_error", "op %d: Uint32SliceDelete(%s,%s,%v): %v", i, sw, key, vals, err)
		}
		if old != nil {
			n := old.clone()
			var keep []uint32
			for _, v := range n.Slice {
				drop := false
				for _, d := range vals {
					if d == v {
						drop = true
					}
				}
				if !drop {
					keep = append(keep, v)
				}
			}
			n.Slice = keep
			if len(keep) == 0 {
				delete(g.model[sw], key) // an emptied set removes its record
				dropIfEmpty()
			} else {
				g.model[sw][key] = n
			}
		}
	case "ssize":
		g.families["uint32slice"] = true
		key := keyName(op.A[1])
		old := m[key]
		size, err := cl.sliceSize(sw, key)
		if cl.hung != "" {
			return nil
		}
		if old == nil || old.Kind != "slice" {
			if err == nil && size != 0 {
				return g.fail("slice_size_wrong", "op %d: Uint32SliceSize(%s)=%d for a key that holds no set", i, key, size)
			}
			return nil
		}
		if err != nil || int(size) != len(old.Slice) {
			return g.fail("slice_size_wrong", "op %d: Uint32SliceSize(%s)=%d,%v; model has %v", i, key, size, err, old.Slice)
		}
	}
	return nil
}

// applySetRequest builds the record that is sent (metadata only where the mask asks for it).
func applySetRequest(val *mrec, meta, tsSel, now int64) *mrec {
	return applySet(nil, val, meta, tsSel, now)
}

func relHolds(op hydrapb.Relational_Operator, cur, ref int64) bool {
	switch op {
	case hydrapb.Relational_EQUAL:
		return cur == ref
	case hydrapb.Relational_NOT_EQUAL:
		return cur != ref
	case hydrapb.Relational_GREATER_THAN:
		return cur > ref
	case hydrapb.Relational_GREATER_THAN_OR_EQUAL:
		return cur >= ref
	case hydrapb.Relational_LESS_THAN:
		return cur < ref
	case hydrapb.Relational_LESS_THAN_OR_EQUAL:
		return cur <= ref
	}
	return cur == ref
}

// ---------------------------------------------------------------------------
// typed increments (all ten Increment* RPCs, called through reflection)

var incKinds = []string{"int8", "int16", "int32", "int64", "uint8", "uint16", "uint32", "uint64", "float32", "float64"}

// incStep is the step a request with the integer argument by carries: whole numbers for the integer kinds, halves
// for the float kinds.
func incStepF(by int64) float64 { return float64(by) * 0.5 }

// incApply returns cur + step in the arithmetic of the counter's own Go type (wrap-around included).
func incApply(cur *mrec, by int64) *mrec {
	n := &mrec{Kind: cur.Kind}
	switch cur.Kind {
	case "int8":
		n.I = int64(int8(cur.I) + int8(by))
	case "int16":
		n.I = int64(int16(cur.I) + int16(by))
	case "int32":
		n.I = int64(int32(cur.I) + int32(by))
	case "int64":
		n.I = cur.I + by
	case "uint8":
		n.U = uint64(uint8(cur.U) + uint8(by))
	case "uint16":
		n.U = uint64(uint16(cur.U) + uint16(by))
	case "uint32":
		n.U = uint64(uint32(cur.U) + uint32(by))
	case "uint64":
		n.U = cur.U + uint64(by)
	case "float32":
		n.F = float64(float32(cur.F) + float32(incStepF(by)))
	case "float64":
		n.F = cur.F + incStepF(by)
	}
	return n
}

func incRelHolds(op hydrapb.Relational_Operator, cur *mrec, ref int64) bool {
	c := 0
	switch cur.Kind {
	case "int8", "int16", "int32", "int64":
		switch {
		case cur.I < ref:
			c = -1
		case cur.I > ref:
			c = 1
		}
	case "uint8", "uint16", "uint32", "uint64":
		switch {
		case cur.U < uint64(ref):
			c = -1
		case cur.U > uint64(ref):
			c = 1
		}
	default:
		switch {
		case cur.F < float64(ref):
			c = -1
		case cur.F > float64(ref):
			c = 1
		}
	}
	switch op {
	case hydrapb.Relational_EQUAL:
		return c == 0
	case hydrapb.Relational_NOT_EQUAL:
		return c != 0
	case hydrapb.Relational_GREATER_THAN:
		return c > 0
	case hydrapb.Relational_GREATER_THAN_OR_EQUAL:
		return c >= 0
	case hydrapb.Relational_LESS_THAN:
		return c < 0
	case hydrapb.Relational_LESS_THAN_OR_EQUAL:
		return c <= 0
	}
	return c == 0
}

func setNumField(f reflect.Value, i int64, fl float64, isFloat bool) {
	switch f.Kind() {
	case reflect.Int32, reflect.Int64:
		f.SetInt(i)
	case reflect.Uint32, reflect.Uint64:
		f.SetUint(uint64(i))
	case reflect.Float32, reflect.Float64:
		if isFloat {
			f.SetFloat(fl)
		} else {
			f.SetFloat(float64(i))
		}
	}
}

// incAny calls Gateway.Increment<Kind>. It returns the value of the reply in model form.
func (c *gwClient) incAny(kind, swamp, key string, by, condOp, condVal int64, ifNot, ifEx *hydrapb.IncrementRequestMetadata) (val *mrec, incremented bool, err error) {
	name := "Increment" + strings.ToUpper(kind[:1]) + kind[1:]
	m := reflect.ValueOf(c.srv.gw).MethodByName(name)
	if !m.IsValid() {
		return nil, false, fmt.Errorf("no gateway method %s", name)
	}
	isFloat := kind[0] == 'f'
	req := reflect.New(m.Type().In(1).Elem())
	e := req.Elem()
	e.FieldByName("IslandID").SetUint(c.island)
	e.FieldByName("SwampName").SetString(swamp)
	e.FieldByName("Key").SetString(key)
	setNumField(e.FieldByName("IncrementBy"), by, incStepF(by), isFloat)
	if condOp > 0 {
		cf := e.FieldByName("Condition")
		cv := reflect.New(cf.Type().Elem())
		cv.Elem().FieldByName("RelationalOperator").SetInt(condOp - 1)
		setNumField(cv.Elem().FieldByName("Value"), condVal, float64(condVal), false)
		cf.Set(cv)
	}
	if ifNot != nil {
		e.FieldByName("SetIfNotExist").Set(reflect.ValueOf(ifNot))
	}
	if ifEx != nil {
		e.FieldByName("SetIfExist").Set(reflect.ValueOf(ifEx))
	}
	c.call(name, func() {
		out := m.Call([]reflect.Value{reflect.ValueOf(ctxBg), req})
		if !out[1].IsNil() {
			err = out[1].Interface().(error)
			return
		}
		if out[0].IsNil() {
			err = fmt.Errorf("nil reply")
			return
		}
		r := out[0].Elem()
		incremented = r.FieldByName("IsIncremented").Bool()
		val = &mrec{Kind: kind}
		v := r.FieldByName("Value")
		switch v.Kind() {
		case reflect.Int32, reflect.Int64:
			val.I = v.Int()
		case reflect.Uint32, reflect.Uint64:
			val.U = v.Uint()
		default:
			val.F = v.Float()
		}
	})
	return
}
