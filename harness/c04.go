package zzharness

import (
	"encoding/binary"
	"fmt"
	"hash/crc32"

	"github.com/golang/snappy"
	"runtime"
	"testing"
	"time"

	"github.com/hydraide/hydraide/app/core/hydra/swamp/beacon"
	"github.com/hydraide/hydraide/app/core/hydra/swamp/chronicler"
	v2 "github.com/hydraide/hydraide/app/core/hydra/swamp/chronicler/v2"
	"github.com/hydraide/hydraide/app/core/hydra/swamp/treasure/guard"
	"github.com/hydraide/hydraide/app/zzsim/simrt"
)

// C04 — corrupt storage files are detected, never misread, never crash.
//
// A valid file is produced by the real writer from a seeded history (current
// header format, or the legacy format with the name in a metadata entry), then
// damaged "at rest" on the simulated disk: bit flips, byte overwrites,
// truncation, zeroed or duplicated 512-byte sectors, forged length fields in
// block headers and the file header, garbage files. Every reader entry point
// is then run on it.

func init() {
	register(&Property{
		ID:    "C04",
		Level: "exploration",
		Rule: "cases = seeded valid files (1..60 entries, block 64B..16KiB, V3 or legacy V2 header) x 1..3 corruptions out of 9 kinds at seeded offsets (biased to header and block-header fields); " +
			"non-trivial = the damaged file differs from the original in a byte that the reader looks at (inside header, name, a block header or block data); distinct = hash of (file shape, corruption kinds, offsets class, outcome)",
		Gen: genC04,
		Run: runC04,
		Assumptions: []string{"a corruption that also recomputes the block CRC over changed *data* is indistinguishable from a valid write as far as the returned records go (the misread oracle is off for it); it is generated for the panic/hang/allocation oracles: blocks with consistent sizes and CRC whose entry stream is cut or carries forged length prefixes",
			"hang bound: 20 s of real time per reader call on files <= 1 MB; allocation bound: 64 x (file size + uncompressed bytes written) + 16 MiB"},
		Real: []string{"v2.NewFileReader/LoadIndex/ReadAllBlocks/ScanBlockHeaders/CalculateFragmentation/ReadSwampName", "v2.ParseBlock / Entry.Deserialize / FileHeader.Deserialize", "chronicler V2 Load", "v2 writer open-for-append on a damaged file", "snappy"},
		Stub: storageStub,
	})
}

func genC04(seed uint64, tier string) Case {
	r := newRng(seed, "c04")
	c := Case{Prop: "C04", Seed: seed, Cfg: map[string]int64{}}
	c.Cfg["block"] = []int64{64, 200, 1024, 4096, 16384}[r.intn(5)]
	c.Cfg["legacy"] = int64(r.pick(3, 1))
	n := 1 + r.intn(60)
	nkeys := 1 + r.intn(10)
	for i := 0; i < n; i++ {
		ki := int64(r.intn(nkeys))
		if r.chance(1, 6) {
			c.Ops = append(c.Ops, Op{K: "del", A: []int64{ki % 2, 1 + (ki*7)%23, ki}})
		} else {
			pl := int64(r.intn(80))
			if r.chance(1, 8) {
				pl = int64(r.intn(3000))
			}
			c.Ops = append(c.Ops, Op{K: "put", A: []int64{ki % 2, 1 + (ki*7)%23, ki, pl, int64(r.intn(1 << 20))}})
		}
		if r.chance(1, 10) {
			c.Ops = append(c.Ops, Op{K: "flush"})
		}
	}
	nc := 1 + r.intn(3)
	for i := 0; i < nc; i++ {
		// kind, position selector (per mille of file or index of block), value
		c.Ops = append(c.Ops, Op{K: "corrupt", A: []int64{int64(r.intn(10)), int64(r.intn(1000)), int64(r.next() & 0xffffffff), int64(r.intn(8))}})
	}
	return c
}

type blockPos struct{ off, size int64 }

// scanBlocksRaw walks the block headers of a pristine file.
func scanBlocksRaw(b []byte, dataStart int64) []blockPos {
	var out []blockPos
	pos := dataStart
	for pos+16 <= int64(len(b)) {
		cs := int64(binary.LittleEndian.Uint32(b[pos : pos+4]))
		if pos+16+cs > int64(len(b)) {
			break
		}
		out = append(out, blockPos{pos, 16 + cs})
		pos += 16 + cs
	}
	return out
}

func runC04(t *testing.T, c Case) (res Result) {
	d := newDisk()
	captureLogs()
	simrt.SetPassSeed(c.Seed)
	block := int(c.cfg("block", 16384))
	legacy := c.cfg("legacy", 0) == 1
	name := "verif/c04/swamp"
	d.MkdirAll("/data/sw/ab")
	var w *v2.FileWriter
	var err error
	if legacy {
		w, err = v2.NewFileWriter(stHyd, block)
		if err == nil {
			err = w.WriteEntry(v2.Entry{Operation: v2.OpMetadata, Key: v2.MetadataEntryKey, Data: []byte(name)})
		}
	} else {
		w, err = v2.NewFileWriterWithName(stHyd, block, name)
	}
	if err != nil {
		return violation("setup_failed", "%v", err)
	}
	written := map[string]bool{} // key + "\x00" + value of every record ever written
	var uncompressed int64
	for _, op := range c.Ops {
		switch op.K {
		case "put":
			k := genKey(op.A[0], op.A[1], op.A[2])
			v := gobTreasure(k, genPayload(op.A[3], op.A[4])) // what the chronicler stores: a gob-encoded record
			w.WriteEntry(v2.Entry{Operation: v2.OpInsert, Key: k, Data: v})
			written[k+"\x00"+string(v)] = true
			uncompressed += int64(len(k) + len(v) + 7)
		case "del":
			w.WriteEntry(v2.Entry{Operation: v2.OpDelete, Key: genKey(op.A[0], op.A[1], op.A[2])})
			uncompressed += 30
		case "flush":
			w.Flush()
		}
	}
	w.Close()
	orig, _ := d.ReadFile(stHyd)
	if legacy {
		binary.LittleEndian.PutUint16(orig[4:6], 2) // legacy header version; bytes 44..45 are reserved (zero) there
	}
	dataStart := int64(64)
	if !legacy {
		dataStart += int64(len(name))
	}
	blocks := scanBlocksRaw(orig, dataStart)
	file := append([]byte(nil), orig...)
	var kinds []string
	touched := false
	for _, op := range c.Ops {
		if op.K != "corrupt" {
			continue
		}
		kind, sel, val, bit := op.A[0], op.A[1], op.A[2], op.A[3]
		if len(file) == 0 {
			break
		}
		pos := int(sel * int64(len(file)) / 1000)
		var bp blockPos
		if len(blocks) > 0 {
			bp = blocks[int(sel)%len(blocks)]
		}
		switch kind {
		case 0: // bit flip
			file[pos] ^= 1 << uint(bit)
			kinds = append(kinds, "bitflip")
			touched = true
		case 1: // byte overwrite
			if file[pos] != byte(val) {
				touched = true
			}
			file[pos] = byte(val)
			kinds = append(kinds, "byte")
		case 2: // truncate
			file = file[:pos]
			kinds = append(kinds, "truncate")
			touched = true
		case 3: // zero a 512 byte sector
			s := pos / 512 * 512
			for i := s; i < s+512 && i < len(file); i++ {
				if file[i] != 0 {
					touched = true
				}
				file[i] = 0
			}
			kinds = append(kinds, "zero_sector")
		case 4: // duplicate a sector over the next one
			s := pos / 512 * 512
			if s+1024 <= len(file) {
				copy(file[s+512:s+1024], file[s:s+512])
				touched = true
			}
			kinds = append(kinds, "dup_sector")
		case 5: // forge a block header length field (CRC of the data stays valid)
			if bp.size > 0 && int(bp.off)+16 <= len(file) {
				field := int(val % 3)
				forged := []uint32{0xffffffff, 0x7fffffff, uint32(val), 0, uint32(len(file)), 1 << 20}[int(val>>8)%6]
				switch field {
				case 0:
					binary.LittleEndian.PutUint32(file[bp.off:bp.off+4], forged) // CompressedSize
				case 1:
					binary.LittleEndian.PutUint32(file[bp.off+4:bp.off+8], forged) // UncompressedSize
				case 2:
					binary.LittleEndian.PutUint16(file[bp.off+8:bp.off+10], uint16(forged)) // EntryCount
				}
				touched = true
			}
			kinds = append(kinds, "forge_block_len")
		case 6: // forge file header fields
			if len(file) >= 64 {
				switch val % 4 {
				case 0:
					binary.LittleEndian.PutUint16(file[44:46], uint16(val>>8)) // NameLength
				case 1:
					binary.LittleEndian.PutUint16(file[4:6], uint16(val>>8)%6) // Version
				case 2:
					binary.LittleEndian.PutUint32(file[24:28], uint32(val)) // BlockSize
				case 3:
					binary.LittleEndian.PutUint64(file[28:36], uint64(val)<<20) // EntryCount
				}
				touched = true
			}
			kinds = append(kinds, "forge_file_header")
		case 7: // garbage file
			file = genPayload(val%5000, val)
			kinds = append(kinds, "garbage")
			touched = true
		case 8: // damage compressed data and recompute nothing, but swap two blocks (valid CRCs, wrong order is still "written records")
			if len(blocks) >= 2 {
				a, b := blocks[0], blocks[len(blocks)-1]
				if a.size == b.size && int(b.off+b.size) <= len(file) {
					tmp := append([]byte(nil), file[a.off:a.off+a.size]...)
					copy(file[a.off:a.off+a.size], file[b.off:b.off+b.size])
					copy(file[b.off:b.off+b.size], tmp)
				} else if int(a.off)+20 <= len(file) {
					// flip a data byte and fix the CRC field so only the decoder can notice
					file[a.off+16] ^= 0x40
					crc := crc32.ChecksumIEEE(file[a.off+16 : min(int64(len(file)), a.off+a.size)])
					binary.LittleEndian.PutUint32(file[a.off+10:a.off+14], crc)
				}
				touched = true
			}
			kinds = append(kinds, "swap_or_crcfix")
		case 9: // a block whose payload was damaged BEFORE it was compressed and checksummed (or a forged file):
			// sizes and CRC are all consistent, only the entry stream inside is broken - cut in the middle of an
			// entry, a key-length prefix pointing past the end, a data-length field too large. The reader must
			// report that as corruption (no panic, no hang, no runaway allocation).
			if bp.size > 16 && int(bp.off+bp.size) <= len(file) {
				if payload, err := snappy.Decode(nil, file[bp.off+16:bp.off+bp.size]); err == nil && len(payload) > 8 {
					at := int(val>>8) % len(payload)
					switch val % 4 {
					case 0:
						payload = payload[:at] // cut mid-entry, the header still counts the cut entry
					case 1:
						binary.LittleEndian.PutUint16(payload[1:3], uint16(val>>12)) // first entry: key length
					case 2:
						if at+4 <= len(payload) {
							binary.LittleEndian.PutUint32(payload[at:at+4], uint32(val)) // some length field inside
						}
					default:
						if at+2 <= len(payload) {
							binary.LittleEndian.PutUint16(payload[at:at+2], uint16(len(payload)-at-int(val%5))) // a key that swallows the block up to its last few bytes
						}
					}
					comp := snappy.Encode(nil, payload)
					hdr := append([]byte(nil), file[bp.off:bp.off+16]...)
					binary.LittleEndian.PutUint32(hdr[0:4], uint32(len(comp)))
					binary.LittleEndian.PutUint32(hdr[4:8], uint32(len(payload)))
					binary.LittleEndian.PutUint32(hdr[10:14], crc32.ChecksumIEEE(comp))
					nf := append([]byte(nil), file[:bp.off]...)
					nf = append(nf, hdr...)
					nf = append(nf, comp...)
					nf = append(nf, file[bp.off+bp.size:]...)
					file = nf
					blocks = nil // offsets of later blocks moved
					touched = true
				}
			}
			kinds = append(kinds, "swap_or_crcfix")
		}
	}
	d.PutFile(stHyd, file)
	crcFixed := false
	for _, k := range kinds {
		if k == "swap_or_crcfix" {
			crcFixed = true
		}
	}
	limit := 64*(int64(len(file))+int64(len(orig))+uncompressed) + 16<<20

	type outcome struct {
		name  string
		err   error
		recs  map[string][]byte
		alloc int64
		pan   any
		hung  bool
	}
	call := func(name string, f func() (map[string][]byte, error)) outcome {
		o := outcome{name: name}
		done := make(chan struct{})
		var m0, m1 runtime.MemStats
		runtime.ReadMemStats(&m0)
		go func() {
			defer close(done)
			defer func() {
				if r := recover(); r != nil {
					o.pan = r
				}
			}()
			o.recs, o.err = f()
		}()
		select {
		case <-done:
		case <-time.After(20 * time.Second):
			o.hung = true
			return o
		}
		runtime.ReadMemStats(&m1)
		o.alloc = int64(m1.TotalAlloc - m0.TotalAlloc)
		return o
	}
	kindSig := fmt.Sprint(kinds)
	var nameV *Result
	check := func(o outcome) *Result {
		switch {
		case o.pan != nil:
			v := violation("panic_in_"+o.name, "%s panicked on a damaged file (%s): %v", o.name, kindSig, o.pan)
			return &v
		case o.hung:
			v := violation("hang_in_"+o.name, "%s did not return within 20s on a %d byte damaged file (%s)", o.name, len(file), kindSig)
			return &v
		case o.alloc > limit:
			v := violation("excessive_allocation_in_"+o.name, "%s allocated %d bytes for a %d byte file (%s), bound %d", o.name, o.alloc, len(file), kindSig, limit)
			return &v
		}
		if o.err == nil && !crcFixed {
			for k, val := range o.recs {
				if !written[k+"\x00"+string(val)] {
					v := violation("misread_record_in_"+o.name, "%s returned key %s with %d bytes without error, but that record was never written to the file (%s)", o.name, shortKey(k), len(val), kindSig)
					return &v
				}
			}
		}
		if o.err != nil {
			res.count("damage_reported", 1)
		} else {
			res.count("loaded_without_error", 1)
		}
		return nil
	}
	outs := []outcome{
		call("LoadIndex", func() (map[string][]byte, error) { m, _, e := rawLoad(stHyd); return m, e }),
		call("ReadAllBlocks", func() (map[string][]byte, error) {
			r, e := v2.NewFileReader(stHyd)
			if e != nil {
				return nil, e
			}
			defer r.Close()
			bl, e := r.ReadAllBlocks()
			m := map[string][]byte{}
			// block-level view: every insert/update entry must be a written record
			for _, b := range bl {
				for _, en := range b.Entries {
					if en.Operation == v2.OpInsert || en.Operation == v2.OpUpdate {
						if !written[en.Key+"\x00"+string(en.Data)] && e == nil && !crcFixed {
							return map[string][]byte{en.Key: en.Data}, nil
						}
					}
				}
			}
			return m, e
		}),
		call("ScanBlockHeaders", func() (map[string][]byte, error) {
			r, e := v2.NewFileReader(stHyd)
			if e != nil {
				return nil, e
			}
			defer r.Close()
			_, e = r.ScanBlockHeaders()
			return nil, e
		}),
		call("CalculateFragmentation", func() (map[string][]byte, error) {
			r, e := v2.NewFileReader(stHyd)
			if e != nil {
				return nil, e
			}
			defer r.Close()
			_, _, _, e = r.CalculateFragmentation()
			return nil, e
		}),
		call("ReadSwampName", func() (map[string][]byte, error) {
			n, e := v2.ReadSwampName(stHyd)
			if e == nil && n != name && n != "" && !touchedName(file, orig, dataStart) {
				return nil, nil
			}
			return nil, e
		}),
		call("chroniclerLoad", func() (map[string][]byte, error) {
			ch := chronicler.NewV2WithConfig(stFolder, 2, block, 0.3)
			ch.CreateDirectoryIfNotExists()
			b := beacon.New()
			ch.Load(b)
			ch.Close()
			return nil, nil
		}),
	}
	// restore the damaged file (chronicler Load may have self-healed/compacted it) and try the writer
	d.PutFile(stHyd, file)
	outs = append(outs, call("openForAppend", func() (map[string][]byte, error) {
		w, e := v2.NewFileWriterWithName(stHyd, block, name)
		if e != nil {
			return nil, e
		}
		w.WriteEntry(v2.Entry{Operation: v2.OpInsert, Key: "after", Data: []byte("x")})
		return nil, w.Close()
	}))
	// a swamp name a reader returns without an error is the name that was written (or none): where the damage left the
	// bytes of the header and of the name as they were - a cut inside them included - nothing else can be "read"
	d.PutFile(stHyd, file)
	headIntact := true
	for i := 0; i < len(file) && i < int(dataStart); i++ {
		if file[i] != orig[i] {
			headIntact = false
			break
		}
	}
	if headIntact && !crcFixed { // (a forged block with a recomputed checksum may carry any name in the legacy layout)
		func() {
			defer func() { recover() }() // panics are the business of the entry points above
			if n, e := v2.ReadSwampName(stHyd); e == nil && n != "" && n != name {
				v := violation("misread_name_in_ReadSwampName", "ReadSwampName returned %q without error for a %d byte file (%s); the name written is %q and header+name take %d bytes", n, len(file), kindSig, name, dataStart)
				nameV = &v
			}
			if _, n, e := rawLoad(stHyd); e == nil && n != "" && n != name && nameV == nil {
				v := violation("misread_name_in_LoadIndex", "LoadIndex returned the name %q without error for a %d byte file (%s); the name written is %q", n, len(file), kindSig, name)
				nameV = &v
			}
		}()
		if nameV != nil {
			nameV.Counters = res.Counters
			return *nameV
		}
	}
	reported := 0
	for _, o := range outs {
		if v := check(o); v != nil {
			v.Counters = res.Counters
			return *v
		}
		if o.err != nil {
			reported++
		}
	}
	for _, k := range kinds {
		res.count("corruption:"+k, 1)
	}
	res.Verdict = "ok"
	res.Nontrivial = touched
	res.Fingerprint = fnv(len(orig), len(blocks), legacy, kindSig, len(file)/64, reported)
	res.TraceHash = fnv(len(orig), len(file), reported, kindSig)
	return res
}

func touchedName(file, orig []byte, dataStart int64) bool {
	n := int(dataStart)
	if len(file) < n {
		return true
	}
	for i := 0; i < n; i++ {
		if file[i] != orig[i] {
			return true
		}
	}
	return false
}

// gobTreasure returns the bytes the chronicler would store for a record.
func gobTreasure(key string, content []byte) []byte {
	tr := mkTreasure(key, content)
	g := tr.StartTreasureGuard(true, guard.BodyAuthID)
	defer tr.ReleaseTreasureGuard(g)
	b, err := tr.ConvertToByte(g)
	if err != nil {
		panic(err)
	}
	return b
}
