package zzharness

import (
	"fmt"
	"testing"
	"time"

	"github.com/hydraide/hydraide/app/core/hydra/swamp/treasure/guard"
	"github.com/hydraide/hydraide/app/core/hydra/swamp/vigil"
	"github.com/hydraide/hydraide/app/zzsim/simrt"
)

// C15 — the record guard gives exclusive, arrival-ordered access.
// C17 (package part) — waits for active operations always terminate.

func init() {
	register(&Property{
		ID:    "C15",
		Level: "exploration",
		Rule: "cases = 2..5 goroutines on one guard, each running 1..4 steps out of {waiting acquire, non-waiting acquire, hold (yield or simulated sleep), release own id, release own id twice, release the id of an earlier finished hold (stale), release id+1 (foreign)}; " +
			"every interleaving decision is the seeded scheduler's; non-trivial = at least one acquire found the guard busy; distinct = hash of the context-switch trace",
		Gen: genC15,
		Run: runC15,
		Sim: true,
		Assumptions: []string{"hold intervals observed conservatively: from after StartTreasureGuard returned to before ReleaseTreasureGuard is called"},
		Real:        []string{"guard.StartTreasureGuard/ReleaseTreasureGuard/CanExecute (queue + sync.Cond)"},
		Stub:        []string{"Go scheduler (simrt)", "sync.Cond/RWMutex/atomic (shims with Go semantics)"},
	})
	register(&Property{
		ID:    "C17",
		Level: "exploration",
		Rule: "cases = (a) vigil package: 1..4 operation goroutines doing Begin/Cease pairs with holds and 1..3 waiters calling WaitForActiveVigilsClosed at seeded instants; (b) server: requests in flight while Destroy / idle close / graceful stop / re-summon wait for them (see C16 workload); " +
			"oracle = once every operation has ended each waiter returns within 120 simulated seconds; non-trivial = a waiter was parked while an operation was in flight; distinct = hash of the context-switch trace",
		Gen: genC17,
		Run: runC17,
		Sim: true,
		Assumptions: []string{"fair scheduler tail: after the last operation ended every runnable goroutine is eventually scheduled (the simulator never starves an enabled goroutine forever)"},
		Real:        []string{"vigil.BeginVigil/CeaseVigil/WaitForActiveVigilsClosed", "swamp/hydra lifecycle waits (server part)"},
		Stub:        []string{"Go scheduler (simrt)", "sync.Cond (shim: enlist-then-unlock like the runtime notifyList)"},
	})
}

// step kinds: 0 waiting acquire+hold+release, 1 non-waiting acquire (+hold+release if acquired),
// 2 waiting acquire, release twice, 3 waiting acquire, release, then release the stale id again later,
// 4 release a foreign id (id+1 of own last), 5 yield/sleep
func genC15(seed uint64, tier string) Case {
	r := newRng(seed, "c15")
	c := Case{Prop: "C15", Seed: seed}
	n := 2 + r.intn(4)
	for g := 0; g < n; g++ {
		steps := 1 + r.intn(4)
		for s := 0; s < steps; s++ {
			c.Ops = append(c.Ops, Op{C: g, K: "step", A: []int64{int64(r.pick(5, 2, 2, 2, 1, 2)), int64(r.intn(3)), int64(r.intn(4))}})
		}
	}
	c.Sched = genSched(r)
	return c
}

type guardEv struct {
	seq  int64
	g    int
	kind string // enter, leave
	id   int64
}

func runC15(t *testing.T, c Case) (res Result) {
	var evs []guardEv
	busySeen := false
	stuck := false
	out := runSim(t, c.Sched, func() {
		gd := guard.New()
		byG := map[int][]Op{}
		maxG := 0
		for _, op := range c.Ops {
			byG[op.C] = append(byG[op.C], op)
			if op.C > maxG {
				maxG = op.C
			}
		}
		rec := func(g int, kind string, id int64) {
			seq := simrt.EventSeq()
			evs = append(evs, guardEv{seq, g, kind, id})
		}
		var ids []int32
		var finished []guard.ID // ids of holds that are over (shared knowledge)
		for g := 0; g <= maxG; g++ {
			g := g
			ops := byG[g]
			if len(ops) == 0 {
				continue
			}
			ids = append(ids, simrt.GoID(func() {
				var stale []guard.ID
				hold := func(h int64) {
					if h == 0 {
						simrt.Yield(simrt.SiteOther)
					} else {
						simrt.Sleep(time.Duration(h) * time.Millisecond)
					}
				}
				for _, op := range ops {
					kind, h := op.A[0], op.A[1]
					switch kind {
					case 0, 2, 3:
						id := gd.StartTreasureGuard(true)
						rec(g, "enter", int64(id))
						hold(h)
						rec(g, "leave", int64(id))
						gd.ReleaseTreasureGuard(id)
						finished = append(finished, id)
						if kind == 2 {
							gd.ReleaseTreasureGuard(id) // duplicate release
						}
						if kind == 3 {
							stale = append(stale, id)
						}
					case 1:
						id := gd.StartTreasureGuard(false)
						if id == 0 {
							busySeen = true
							continue
						}
						rec(g, "enter", int64(id))
						hold(h)
						rec(g, "leave", int64(id))
						gd.ReleaseTreasureGuard(id)
					case 4:
						// release an id this goroutine does not hold: a stale one of its own, or one that
						// another goroutine was handed for a hold that is already over (ids of holds in
						// progress are private to their holder and cannot be known to anybody else)
						if len(stale) > 0 {
							gd.ReleaseTreasureGuard(stale[0])
						} else if len(finished) > 0 {
							gd.ReleaseTreasureGuard(finished[int(op.A[2])%len(finished)])
						}
					case 5:
						hold(h)
					}
				}
			}))
		}
		if !simrt.JoinIDs(ids, 30*time.Second) {
			stuck = true
		}
	})
	res.SimNanos = out.stats.SimNanos
	res.TraceHash = out.stats.Hash
	res.PreemptSteps = out.stats.PreemptSteps
	res.count("sched_steps", out.stats.Steps)
	res.count("preemptions", out.stats.Preemptions)
	res.count("blocked_parks", out.stats.Blocked)
	fail := func(v Result) Result {
		v.TraceHash, v.PreemptSteps, v.SimNanos, v.Counters = res.TraceHash, res.PreemptSteps, res.SimNanos, res.Counters
		return v
	}
	if out.rootPanic != "" {
		return fail(violation("panic", "panic in run: %s", out.rootPanic))
	}
	if out.escaped != "" {
		return fail(violation("goroutine_panic", "a goroutine panicked inside the guard (the server process would die): %s", oneLine(out.escaped, 400)))
	}
	if out.aborted || out.stats.OverBudget {
		return Result{Verdict: "inconclusive", Detail: "scheduler budget exhausted"}
	}
	// exclusivity on observed intervals
	holder := -1
	var holderID int64
	for _, e := range evs {
		switch e.kind {
		case "enter":
			if holder >= 0 {
				return fail(violation("two_holders", "goroutine %d entered the guard (id %d, event %d) while goroutine %d (id %d) was still inside", e.g, e.id, e.seq, holder, holderID))
			}
			holder, holderID = e.g, e.id
		case "leave":
			holder = -1
		}
	}
	if stuck {
		return fail(violation("guard_waiter_blocked", "a goroutine is still blocked in the guard 30 simulated seconds after all others finished"))
	}
	if !benignBubbleEnd(out.bubblePanic) {
		return Result{Verdict: "inconclusive", Detail: "bubble: " + out.bubblePanic}
	}
	// arrival order: among waiting acquirers that were queued at the same time, ids are handed out in
	// arrival order and entries happen in id order. Entering with a larger id before a smaller id of the
	// same busy period (no reset in between: ids strictly increase) violates it.
	last := int64(0)
	for _, e := range evs {
		if e.kind != "enter" {
			continue
		}
		if e.id < last && e.id != 1 {
			return fail(violation("arrival_order_violated", "goroutine %d entered with guard id %d after id %d had entered", e.g, e.id, last))
		}
		last = e.id
	}
	res.Verdict = "ok"
	res.Nontrivial = out.stats.Blocked > 0 || busySeen
	res.Fingerprint = fnv(out.stats.Hash, len(c.Ops))
	return res
}

// ---------------------------------------------------------------------------
// C17, vigil package part

// ops: K="op" A=[startMs, holdMs] (Begin..Cease), K="wait" A=[startMs]
func genC17(seed uint64, tier string) Case {
	r := newRng(seed, "c17")
	if r.chance(1, 3) {
		// server part: the lifecycle workload of C16, judged only on termination
		c := genC16(seed, tier, "C17")
		c.Cfg["server"] = 1
		return c
	}
	c := Case{Prop: "C17", Seed: seed}
	nOps := 1 + r.intn(4)
	for i := 0; i < nOps; i++ {
		c.Ops = append(c.Ops, Op{C: i, K: "op", A: []int64{int64(r.intn(3)), int64(r.intn(3))}})
	}
	nW := 1 + r.intn(3)
	for i := 0; i < nW; i++ {
		c.Ops = append(c.Ops, Op{C: nOps + i, K: "wait", A: []int64{int64(r.intn(4))}})
	}
	c.Sched = genSched(r)
	if c.Sched.PreemptPPM == 0 {
		c.Sched.PreemptPPM = 100_000
	}
	return c
}

func runC17(t *testing.T, c Case) (res Result) {
	if c.cfg("server", 0) == 1 {
		return runC16(t, c)
	}
	var blockedWaiters []int
	waiterParkedDuringOp := false
	out := runSim(t, c.Sched, func() {
		v := vigil.New()
		var opIDs, waitIDs []int32
		var waitIdx []int
		active := 0
		for i, op := range c.Ops {
			op := op
			switch op.K {
			case "op":
				opIDs = append(opIDs, simrt.GoID(func() {
					simrt.Sleep(time.Duration(op.A[0]) * time.Millisecond)
					v.BeginVigil()
					active++
					if op.A[1] == 0 {
						simrt.Yield(simrt.SiteOther)
					} else {
						simrt.Sleep(time.Duration(op.A[1]) * time.Millisecond)
					}
					active--
					v.CeaseVigil()
				}))
			case "wait":
				waitIdx = append(waitIdx, i)
				waitIDs = append(waitIDs, simrt.GoID(func() {
					simrt.Sleep(time.Duration(op.A[0]) * time.Millisecond)
					if active > 0 {
						waiterParkedDuringOp = true
					}
					v.WaitForActiveVigilsClosed()
				}))
			}
		}
		simrt.JoinIDs(opIDs, 10*time.Second)
		// every operation has ended: each waiter must return
		if !simrt.JoinIDs(waitIDs, 120*time.Second) {
			for k, id := range waitIDs {
				if !simrt.GDone(id) {
					blockedWaiters = append(blockedWaiters, waitIdx[k])
				}
			}
		}
	})
	res.SimNanos = out.stats.SimNanos
	res.TraceHash = out.stats.Hash
	res.PreemptSteps = out.stats.PreemptSteps
	res.count("sched_steps", out.stats.Steps)
	res.count("preemptions", out.stats.Preemptions)
	if out.rootPanic != "" {
		v := violation("panic", "panic in run: %s", out.rootPanic)
		return v
	}
	if out.aborted || out.stats.OverBudget {
		return Result{Verdict: "inconclusive", Detail: "scheduler budget exhausted"}
	}
	if len(blockedWaiters) > 0 {
		v := violation("vigil_waiter_never_woken", "waiters %v are still blocked in WaitForActiveVigilsClosed 120 simulated seconds after the last operation ended (lost wake-up)", blockedWaiters)
		v.TraceHash, v.PreemptSteps, v.SimNanos, v.Counters = res.TraceHash, res.PreemptSteps, res.SimNanos, res.Counters
		return v
	}
	res.Verdict = "ok"
	res.Nontrivial = waiterParkedDuringOp
	res.Fingerprint = fnv(out.stats.Hash, len(c.Ops))
	_ = fmt.Sprint
	return res
}
