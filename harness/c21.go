package zzharness

import (
	"fmt"
	"sort"
	"testing"

	"github.com/hydraide/hydraide/app/core/settings"
	"github.com/hydraide/hydraide/app/core/settings/setting"
	"github.com/hydraide/hydraide/app/name"
	"github.com/hydraide/hydraide/app/zzsim/simdisk"
	"github.com/hydraide/hydraide/app/zzsim/simrt"
	"github.com/hydraide/hydraide/app/zzsim/sos"
)

// C21 — swamp settings resolve deterministically from the registered patterns.
//
// The seam is the instrumenter's range-over-map rewrite: Go's hidden map
// iteration order becomes a permutation drawn from a seed. The same history of
// pattern registrations, re-registrations and de-registrations is replayed
// under several permutation seeds, under permuted registration orders and
// across restarts (a fresh settings.New reading settings.json from the
// simulated disk); every lookup must give the same answer, and the unique most
// specific matching pattern when there is one.

func init() {
	register(&Property{
		ID:    "C21",
		Level: "exploration",
		Rule: "cases = 2..6 overlapping patterns (exact, swamp-wildcard, realm-wildcard) over 2 realms x 3 swamps of one sanctuary with distinct settings, registered in seeded order with re-registrations, de-registrations and lookups of concrete names in between; each case is replayed under 6 map-iteration permutations x 2 registration orders x {no restart, restart}; " +
			"non-trivial = at least two registered patterns match one queried name; distinct = hash of (pattern set, settings, query answers)",
		Gen: genC21,
		Run: runC21,
		Assumptions: []string{"'more specific' is set inclusion of the names a pattern matches; two incomparable patterns (s/*/x vs s/r/*) may resolve either way but must resolve the same way every time"},
		Real:        []string{"settings.RegisterPattern/DeregisterPattern/GetBySwampName/loadSettingsFromFilesystem", "name.ComparePattern"},
		Stub:        []string{"map iteration order (PRNG permutation through the simgen range rewrite)", "file system (simdisk)"},
	})
}

var c21Realms = []string{"r1", "r2", "*"}
var c21Swamps = []string{"a", "b", "c", "*"}

// op: K="reg" A=[realmIdx, swampIdx, inMemory, idle, writeInterval], K="dereg" A=[realmIdx, swampIdx]
func genC21(seed uint64, tier string) Case {
	r := newRng(seed, "c21")
	c := Case{Prop: "C21", Seed: seed}
	n := 2 + r.intn(5)
	for i := 0; i < n; i++ {
		re, sw := int64(r.intn(3)), int64(r.intn(4))
		c.Ops = append(c.Ops, Op{K: "reg", A: []int64{re, sw, int64(r.intn(2)), int64(1 + r.intn(50)), int64(1 + r.intn(20))}})
		if r.chance(1, 3) {
			// a lookup in the middle of the history (a swamp is summoned while the patterns still change): what it
			// saw must not influence what later lookups answer
			c.Ops = append(c.Ops, Op{K: "look", A: []int64{int64(r.intn(2)), int64(r.intn(3))}})
		}
		if r.chance(1, 6) {
			c.Ops = append(c.Ops, Op{K: "dereg", A: []int64{int64(r.intn(3)), int64(r.intn(4))}})
		}
	}
	return c
}

type c21Answer struct {
	InMem    bool
	Idle, WI int64
}

func (a c21Answer) String() string { return fmt.Sprintf("mem=%v idle=%ds wi=%ds", a.InMem, a.Idle, a.WI) }

func c21Scenario(c Case, permSeed uint64, reverse bool, restart bool) (map[string]c21Answer, error) {
	d := simdisk.New()
	d.Env["HYDRAIDE_ROOT_PATH"] = simRoot
	sos.SetDisk(d)
	captureLogs()
	simrt.SetPassSeed(permSeed)
	st := settings.New(1, 1000)
	ops := append([]Op(nil), c.Ops...)
	if reverse {
		// a different registration order that leads to the same final pattern set: commuting operations on
		// different patterns are swapped pairwise where legal (only independent patterns are reordered)
		sort.SliceStable(ops, func(i, j int) bool {
			a, b := ops[i], ops[j]
			if a.A[0] == b.A[0] && a.A[1] == b.A[1] {
				return false // same pattern: keep relative order
			}
			return a.A[0]*10+a.A[1] > b.A[0]*10+b.A[1]
		})
	}
	for _, op := range ops {
		p := name.New().Sanctuary("cfg").Realm(c21Realms[op.A[0]]).Swamp(c21Swamps[op.A[1]])
		switch op.K {
		case "reg":
			var fss *settings.FileSystemSettings
			if op.A[2] == 0 {
				fss = &settings.FileSystemSettings{WriteIntervalSec: op.A[4], MaxFileSizeByte: 8192}
			}
			st.RegisterPattern(p, op.A[2] == 1, op.A[3], fss)
		case "dereg":
			st.DeregisterPattern(p)
		case "look":
			st.GetBySwampName(p)
		}
	}
	if restart {
		st = settings.New(1, 1000)
	}
	out := map[string]c21Answer{}
	for _, re := range c21Realms[:2] {
		for _, sw := range c21Swamps[:3] {
			n := name.New().Sanctuary("cfg").Realm(re).Swamp(sw)
			// ask several times: the answer must not depend on the iteration order of one lookup
			var first c21Answer
			for k := 0; k < 3; k++ {
				s := st.GetBySwampName(n)
				a := c21Answer{InMem: s.GetSwampType() == setting.InMemorySwamp, Idle: int64(s.GetCloseAfterIdle().Seconds()), WI: int64(s.GetWriteInterval().Seconds())}
				if k == 0 {
					first = a
				} else if a != first {
					return nil, fmt.Errorf("name cfg/%s/%s resolved to %v and then to %v in consecutive lookups", re, sw, first, a)
				}
			}
			out[re+"/"+sw] = first
		}
	}
	return out, nil
}

func runC21(t *testing.T, c Case) (res Result) {
	defer func() {
		if r := recover(); r != nil {
			res = violation("panic", "settings panicked: %v", r)
		}
	}()
	// final pattern set according to the history, for the "most specific" oracle
	type pat struct {
		re, sw string
		a      c21Answer
	}
	final := map[string]pat{}
	for _, op := range c.Ops {
		if op.K == "look" {
			continue
		}
		k := c21Realms[op.A[0]] + "/" + c21Swamps[op.A[1]]
		switch op.K {
		case "reg":
			a := c21Answer{InMem: op.A[2] == 1, Idle: op.A[3]}
			if op.A[2] == 0 {
				a.WI = op.A[4]
			}
			final[k] = pat{c21Realms[op.A[0]], c21Swamps[op.A[1]], a}
		case "dereg":
			delete(final, k)
		}
	}
	base, err := c21Scenario(c, 1, false, false)
	if err != nil {
		return violation("lookup_not_repeatable", "%v", err)
	}
	overlap := false
	for n, got := range base {
		re, sw := n[:2], n[3:]
		var matches []pat
		for _, p := range final {
			if (p.re == "*" || p.re == re) && (p.sw == "*" || p.sw == sw) {
				matches = append(matches, p)
			}
		}
		if len(matches) >= 2 {
			overlap = true
		}
		// unique most specific: a match whose name set is included in every other match's
		for _, p := range matches {
			most := true
			for _, q := range matches {
				if p == q {
					continue
				}
				inc := (q.re == "*" || q.re == p.re) && (q.sw == "*" || q.sw == p.sw)
				if !inc {
					most = false
				}
			}
			if most && len(matches) > 1 && got != p.a {
				return violation("most_specific_pattern_does_not_win", "name cfg/%s: patterns %v match; the most specific is cfg/%s/%s (%v) but the lookup answered %v", n, matchNames(matches), p.re, p.sw, p.a, got)
			}
		}
	}
	variants := 0
	for _, perm := range []uint64{2, 3, 5, 7, 11, 13} {
		for _, rev := range []bool{false, true} {
			for _, restart := range []bool{false, true} {
				got, err := c21Scenario(c, perm, rev, restart)
				variants++
				if err != nil {
					return violation("lookup_not_repeatable", "%v", err)
				}
				var names []string
				for n := range base {
					names = append(names, n)
				}
				sort.Strings(names)
				for _, n := range names {
					if got[n] != base[n] {
						how := "map_iteration_order"
						if restart {
							how = "restart"
						} else if rev {
							how = "registration_order"
						}
						return violation("settings_depend_on_"+how, "name cfg/%s resolves to %v in one run and to %v with another %s (permutation seed %d, reversed order %v, restart %v)", n, base[n], got[n], how, perm, rev, restart)
					}
				}
			}
		}
	}
	res.Verdict = "ok"
	res.Nontrivial = overlap
	res.Fingerprint = fnv(fmt.Sprint(final), fmt.Sprint(base))
	res.TraceHash = res.Fingerprint
	res.count("scenario_variants", int64(variants))
	return res
}

func matchNames[T any](m []T) string { return fmt.Sprint(m) }
