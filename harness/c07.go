package zzharness

import (
	"fmt"
	"sort"
	"testing"
	"time"

	hydrapb "github.com/hydraide/hydraide/sdk/go/hydraidego/v3/hydraidepbgo"
	"github.com/hydraide/hydraide/app/zzsim/simdisk"
	"github.com/hydraide/hydraide/app/zzsim/simrt"
	"github.com/vmihailenco/msgpack/v5"
	"google.golang.org/protobuf/types/known/timestamppb"
)

// C07 — ordered index reads return the correctly sorted, ranged page.
// C30 — expiry semantics are consistent across every read and claim path.
//
// One client drives a swamp of int64 records with explicit created / updated /
// expiry times through Set (insert, value change, time change), Delete,
// PatchTreasures meta (clear / slide / pre-epoch expiry), idle eviction and
// restart, and between those issues index reads of every index type, order,
// offset, limit and time window, ShiftExpiredTreasures and clock advances over
// expiry instants. The oracle is a sort over the reference model.

func init() {
	register(&Property{
		ID:    "C07",
		Level: "exploration",
		Rule: "cases = seeded histories (<=40 writes: insert / change value / change created, updated, expiry time / delete, with idle evictions and restarts, so that indexes are built before and after mutations) interleaved with <=20 GetByIndex reads over {key, creation, update, expiry, value} x {asc, desc} x offset x limit x [from,to) windows; " +
			"oracle = reference sort of the model (ties compared as sets); non-trivial = an index was read again after a mutation that moves a record inside it; distinct = hash of (write kinds, query shapes, final state)",
		Gen: func(seed uint64, tier string) Case { return genC07(seed, tier, "C07") },
		Run: runC07,
		Sim: true,
		Assumptions: []string{"one value type per swamp (int64 in half of the cases, otherwise one of the other ten typed kinds, read through its own VALUE_* index): the value index of a swamp with mixed value types is not specified", "records with equal sort keys may come in any order inside their tie group"},
		Real:        gwReal,
		Stub:        gwStub,
	})
	register(&Property{
		ID:    "C30",
		Level: "exploration",
		Rule: "cases = seeded histories that set, slide, clear and reload expiry times (future, past, zero, pre-epoch via patch meta) and advance the simulated clock across expiry instants, interleaved with ShiftExpiredTreasures (with and without a limit), PatchExpiredTreasures (new lease for every expired body; key-only records with an expiry stay as they are), expiry-ordered GetByIndex reads and plain reads; " +
			"oracle = 'expired iff expiry != 0 and expiry < now' applied to the reference model on every path, before and after reload; non-trivial = the clock crossed at least one expiry instant between two reads; distinct = hash of (op kinds, expiry classes, final state)",
		Gen: func(seed uint64, tier string) Case { return genC07(seed, tier, "C30") },
		Run: runC07,
		Sim: true,
		Assumptions: []string{"ShiftExpiredTreasures returns expired records oldest expiry first"},
		Real:        gwReal,
		Stub:        gwStub,
	})
}

// ops: put A=[key, val, cOff, uOff, eOff] (seconds relative to the run's base; 0 = leave unset / unchanged)
//      del A=[key]; q A=[index, order, from, limit, fromOff, toOff]; shiftexp A=[howMany]; adv A=[ms]; idle; restart;
//      pmeta A=[key, mode] mode 0 clear expiry, 1 slide +30s, 2 pre-epoch, 3 past; putvoid A=[key, eOff]; patchexp A=[leaseSeconds]
func genC07(seed uint64, tier string, prop string) Case {
	r := newRng(seed, "c07"+prop)
	c := Case{Prop: prop, Seed: seed, Cfg: map[string]int64{}}
	c.Cfg["write_interval"] = int64(r.intn(2))
	if prop == "C07" {
		// the value type of the swamp's records (and with it the typed value index that is read): int64 half of the time
		c.Cfg["vkind"] = int64(r.pick(10, 1, 1, 1, 1, 1, 1, 1, 1, 1, 1))
	}
	n := 4 + r.intn(50)
	nkeys := int64(2 + r.intn(7))
	off := func() int64 {
		return []int64{0, 0, -50, -5, -1, 1, 2, 5, 30, 100}[r.intn(10)]
	}
	for i := 0; i < n; i++ {
		key := int64(r.intn(int(nkeys)))
		var pick int
		if prop == "C07" {
			pick = r.pick(40, 8, 36, 0, 0, 4, 4, 0, 0, 0)
		} else {
			pick = r.pick(34, 6, 18, 14, 14, 3, 3, 8, 5, 5)
		}
		switch pick {
		case 8:
			// a key-only (void) record that carries an expiry: it is listed and claimed like any other expired record
			c.Ops = append(c.Ops, Op{K: "putvoid", A: []int64{100 + key, []int64{-50, -5, -1, 2, 5, 30}[r.intn(6)]}})
		case 9:
			// PatchExpiredTreasures over everything that is expired: bodies get a new lease, the others stay as they are
			c.Ops = append(c.Ops, Op{K: "patchexp", A: []int64{[]int64{2, 4, 40}[r.intn(3)]}})
		case 0:
			c.Ops = append(c.Ops, Op{K: "put", A: []int64{key, int64(r.intn(9)) - 4, off(), off(), off()}})
		case 1:
			c.Ops = append(c.Ops, Op{K: "del", A: []int64{key}})
		case 2:
			idx := int64(r.intn(5))
			if prop == "C30" {
				idx = []int64{3, 3, 3, 0, 1}[r.intn(5)]
			}
			// the last argument picks the RPC: GetByIndex, GetByIndexStream or GetByIndexStreamFromMany (same parameters)
			c.Ops = append(c.Ops, Op{K: "q", A: []int64{idx, int64(r.intn(2)), int64(r.intn(4)), int64(r.intn(5)), off(), off(), int64(r.pick(3, 2, 1))}})
		case 3:
			c.Ops = append(c.Ops, Op{K: "shiftexp", A: []int64{int64(r.intn(4))}})
		case 4:
			c.Ops = append(c.Ops, Op{K: "adv", A: []int64{int64(200 + r.intn(6000))}})
		case 5:
			c.Ops = append(c.Ops, Op{K: "idle"})
		case 6:
			c.Ops = append(c.Ops, Op{K: "restart"})
		default:
			c.Ops = append(c.Ops, Op{K: "pmeta", A: []int64{key, int64(r.intn(4))}})
		}
	}
	c.Sched = &Sched{Seed: r.next()}
	return c
}

type idxRun struct {
	gwRun
	base      int64
	crossed   bool
	requeried bool
	built     map[int64]bool // index kinds read at least once
	moved     map[int64]bool // index kinds in which a record moved after the index was read
}

func runC07(t *testing.T, c Case) (res Result) {
	g := &idxRun{built: map[int64]bool{}, moved: map[int64]bool{}}
	g.c, g.res, g.disk = c, &res, simdisk.New()
	g.model, g.touched, g.families, g.stored = map[string]mswamp{}, map[string]bool{}, map[string]bool{}, map[string]bool{}
	g.wi, g.idle = c.cfg("write_interval", 1), 2
	var v *Result
	const sw = "verif/per/index"
	out := runSim(t, c.Sched, func() {
		g.start()
		g.base = time.Now().UnixNano()
		for i, op := range c.Ops {
			if v = g.idxStep(i, op, sw); v != nil {
				return
			}
			if g.cl.hung != "" {
				v = g.fail("request_never_returns_"+g.cl.hung, "op %d (%s %v): %s had not returned after 120 simulated seconds", i, op.K, op.A, g.cl.hung)
				return
			}
			if simrt.Aborted() {
				return
			}
		}
		g.srv.stop(5 * time.Minute)
	})
	res.SimNanos = out.stats.SimNanos
	res.TraceHash = fnv(out.stats.Hash, g.disk.Stats().BytesWritten)
	res.count("sched_steps", out.stats.Steps)
	if out.rootPanic != "" {
		return violation("harness_panic", "root: %s", out.rootPanic)
	}
	if out.escaped != "" {
		return violation("server_goroutine_panic", "%s", oneLine(out.escaped, 500))
	}
	if v != nil {
		v.Counters, v.SimNanos, v.TraceHash = res.Counters, res.SimNanos, res.TraceHash
		return *v
	}
	if e := g.srv.logs.find("grpc gateway panic"); e != "" {
		return violation("request_panicked", "%s", oneLine(e, 400))
	}
	if out.aborted || out.stats.OverBudget {
		return Result{Verdict: "inconclusive", Detail: "scheduler budget exhausted"}
	}
	res.Verdict = "ok"
	if c.Prop == "C07" {
		res.Nontrivial = g.requeried
	} else {
		res.Nontrivial = g.crossed
	}
	var st []string
	for k, r := range g.model[sw] {
		st = append(st, fmt.Sprintf("%s=%d/%d/%d/%d", k, r.I, r.CreatedAt-g.base, r.UpdatedAt-g.base, r.ExpiredAt-g.base))
	}
	sort.Strings(st)
	res.Fingerprint = fnv(g.kinds, st)
	res.States = []uint64{fnv(st)}
	return res
}

func (g *idxRun) at(off int64) int64 {
	if off == 0 {
		return 0
	}
	return g.base + off*int64(time.Second)
}

func (g *idxRun) markMoved(old, n *mrec) {
	if old == nil || n == nil {
		for k := range g.built {
			g.moved[k] = true
		}
		return
	}
	if old.CreatedAt != n.CreatedAt {
		g.moved[1] = g.built[1]
	}
	if old.UpdatedAt != n.UpdatedAt {
		g.moved[2] = g.built[2]
	}
	if old.ExpiredAt != n.ExpiredAt {
		g.moved[3] = g.built[3]
	}
	if old.I != n.I {
		g.moved[4] = g.built[4]
	}
}

func (g *idxRun) idxStep(i int, op Op, sw string) *Result {
	g.kinds = append(g.kinds, op.K)
	cl := g.cl
	m := g.model[sw]
	switch op.K {
	case "adv":
		before := time.Now().UnixNano()
		simrt.Sleep(time.Duration(op.A[0]) * time.Millisecond)
		after := time.Now().UnixNano()
		for _, r := range m {
			if r.ExpiredAt > before && r.ExpiredAt <= after {
				g.crossed = true
			}
		}
		if time.Duration(op.A[0])*time.Millisecond > 2500*time.Millisecond {
			g.built = map[int64]bool{} // may have been evicted meanwhile: indexes are rebuilt
		}
	case "idle":
		simrt.Sleep(time.Duration(g.idle+3) * time.Second)
		g.built = map[int64]bool{}
		g.crossed = g.crossed || len(m) > 0
		return g.idxCheckAll(i, sw, "idle_eviction")
	case "restart":
		if !g.srv.stop(5 * time.Minute) {
			return g.fail("graceful_stop_never_returns", "op %d: StopHydra had not returned", i)
		}
		g.start()
		g.built = map[int64]bool{}
		return g.idxCheckAll(i, sw, "restart")
	case "put":
		key := keyName(op.A[0])
		old := m[key]
		n := &mrec{}
		if old != nil {
			n = old.clone()
		}
		c07setVal(n, g.vkind(), op.A[1])
		req := &mrec{CreatedAt: g.at(op.A[2]), UpdatedAt: g.at(op.A[3]), ExpiredAt: g.at(op.A[4])}
		c07setVal(req, g.vkind(), op.A[1])
		if req.CreatedAt != 0 {
			n.CreatedAt = req.CreatedAt
		}
		if req.UpdatedAt != 0 {
			n.UpdatedAt = req.UpdatedAt
		}
		if req.ExpiredAt != 0 {
			n.ExpiredAt = req.ExpiredAt
		}
		if g.c.Prop == "C30" {
			// msgpack-bodied records written through PatchTreasures, so that the patch-meta paths (set / slide /
			// clear expiry) are part of the history
			now := time.Now().UnixNano()
			meta := &hydrapb.PatchMeta{SetCreatedAt: op.A[2] != 0, SetUpdatedAt: op.A[3] != 0}
			if req.ExpiredAt != 0 {
				meta.SetExpiredAt = timestamppb.New(time.Unix(0, req.ExpiredAt))
			}
			val, _ := msgpack.Marshal(op.A[1])
			var presp *hydrapb.PatchTreasuresResponse
			var perr error
			cl.call("PatchTreasures", func() {
				presp, perr = g.srv.gw.PatchTreasures(ctxBg, &hydrapb.PatchTreasuresRequest{IslandID: 1, SwampName: sw, CreateIfNotExist: true, Meta: meta,
					Patches: []*hydrapb.TreasurePatch{{Key: key, Ops: []*hydrapb.PatchOp{{Op: hydrapb.PatchOp_SET, Path: "v", Value: val}}}}})
			})
			if cl.hung != "" {
				return nil
			}
			if perr != nil || presp == nil || len(presp.Results) != 1 || (presp.Results[0].Status != hydrapb.PatchResult_PATCHED && presp.Results[0].Status != hydrapb.PatchResult_CREATED) {
				return g.fail("patch_error", "op %d: PatchTreasures(%s): %v %v", i, key, presp, perr)
			}
			n = &mrec{Kind: "body", I: op.A[1]}
			if old != nil {
				n = old.clone()
				n.I = op.A[1]
			}
			if meta.SetCreatedAt && old == nil {
				n.CreatedAt = now // created-at is stamped only when the patch creates the record
			}
			if meta.SetUpdatedAt {
				n.UpdatedAt = now
			}
			if req.ExpiredAt != 0 {
				n.ExpiredAt = req.ExpiredAt
			}
			if g.model[sw] == nil {
				g.model[sw] = mswamp{}
			}
			g.markMoved(old, n)
			g.model[sw][key] = n
			return nil
		}
		resp, err := cl.set(sw, []*hydrapb.KeyValuePair{toKV(key, req)}, true, true)
		if cl.hung != "" {
			return nil
		}
		if err != nil || resp == nil || len(resp.Swamps) != 1 || len(resp.Swamps[0].KeysAndStatuses) != 1 {
			return g.fail("set_error", "op %d: Set(%s): %v %v", i, key, resp, err)
		}
		if g.model[sw] == nil {
			g.model[sw] = mswamp{}
		}
		g.markMoved(old, n)
		g.model[sw][key] = n
	case "del":
		key := keyName(op.A[0])
		if len(m) == 0 {
			return nil
		}
		_, err := cl.del(sw, []string{key})
		if cl.hung != "" {
			return nil
		}
		if err != nil {
			return g.fail("delete_error", "op %d: %v", i, err)
		}
		if m[key] != nil {
			g.markMoved(m[key], nil)
			delete(m, key)
			if len(m) == 0 {
				delete(g.model, sw)
				g.built = map[int64]bool{}
			}
		}
	case "pmeta":
		key := keyName(op.A[0])
		old := m[key]
		if old == nil {
			return nil
		}
		meta := &hydrapb.PatchMeta{}
		n := old.clone()
		switch op.A[1] {
		case 0:
			meta.ClearExpiredAt = true
			n.ExpiredAt = 0
		case 1:
			n.ExpiredAt = time.Now().UnixNano() + 30*int64(time.Second)
			meta.SetExpiredAt = timestamppb.New(time.Unix(0, n.ExpiredAt))
		case 2:
			n.ExpiredAt = -5 * int64(time.Second) // before the epoch: long expired
			meta.SetExpiredAt = timestamppb.New(time.Unix(0, n.ExpiredAt))
		default:
			n.ExpiredAt = time.Now().UnixNano() - 3*int64(time.Second)
			meta.SetExpiredAt = timestamppb.New(time.Unix(0, n.ExpiredAt))
		}
		// records here are plain int64 values, not msgpack bodies: a meta-only patch has no body ops
		var resp *hydrapb.PatchTreasuresResponse
		var err error
		cl.call("PatchTreasures", func() {
			resp, err = g.srv.gw.PatchTreasures(ctxBg, &hydrapb.PatchTreasuresRequest{IslandID: 1, SwampName: sw, Meta: meta,
				Patches: []*hydrapb.TreasurePatch{{Key: key}}})
		})
		if cl.hung != "" {
			return nil
		}
		if err != nil || resp == nil || len(resp.Results) != 1 {
			return nil // meta patch not applicable to this record shape: nothing changed
		}
		switch resp.Results[0].Status {
		case hydrapb.PatchResult_PATCHED:
			g.markMoved(old, n)
			m[key] = n
		default:
			return nil
		}
	case "shiftexp":
		if len(m) == 0 {
			return nil
		}
		var resp *hydrapb.ShiftExpiredTreasuresResponse
		var err error
		now := time.Now().UnixNano()
		cl.call("ShiftExpiredTreasures", func() {
			resp, err = g.srv.gw.ShiftExpiredTreasures(ctxBg, &hydrapb.ShiftExpiredTreasuresRequest{IslandID: 1, SwampName: sw, HowMany: int32(op.A[0])})
		})
		if cl.hung != "" {
			return nil
		}
		if err != nil || resp == nil {
			return g.fail("shift_expired_error", "op %d: ShiftExpiredTreasures: %v", i, err)
		}
		var exp []string
		for k, r := range m {
			if r.ExpiredAt != 0 && r.ExpiredAt < now {
				exp = append(exp, k)
			}
		}
		sort.Slice(exp, func(a, b int) bool {
			if m[exp[a]].ExpiredAt != m[exp[b]].ExpiredAt {
				return m[exp[a]].ExpiredAt < m[exp[b]].ExpiredAt
			}
			return exp[a] < exp[b]
		})
		want := len(exp)
		if op.A[0] > 0 && int(op.A[0]) < want {
			want = int(op.A[0])
		}
		if len(resp.Treasures) != want {
			var got []string
			for _, tr := range resp.Treasures {
				got = append(got, tr.Key)
			}
			return g.fail("shift_expired_wrong_set", "op %d: ShiftExpiredTreasures(howMany=%d) at now=base%+dms returned %v; the model has expired records %v (expiry offsets ms %v)", i, op.A[0], (now-g.base)/1e6, got, exp, g.expOffsets(m, exp))
		}
		for j, tr := range resp.Treasures {
			r := m[tr.Key]
			if r == nil || r.ExpiredAt == 0 || r.ExpiredAt >= now {
				return g.fail("shift_expired_returned_unexpired_record", "op %d: ShiftExpiredTreasures returned %s which is not expired in the model", i, tr.Key)
			}
			// oldest first: the j-th returned record's expiry equals the j-th smallest expiry
			if r.ExpiredAt != m[exp[j]].ExpiredAt {
				return g.fail("shift_expired_not_oldest_first", "op %d: ShiftExpiredTreasures returned %s at position %d, the model expects expiry order %v", i, tr.Key, j, exp)
			}
			if cls, det := g.same(tr, r); cls != "" {
				return g.fail("shift_expired_"+cls, "op %d: %s: %s", i, tr.Key, det)
			}
		}
		for _, tr := range resp.Treasures {
			g.markMoved(m[tr.Key], nil)
			delete(m, tr.Key)
		}
		if len(m) == 0 {
			delete(g.model, sw)
			g.built = map[int64]bool{}
		}
	case "putvoid":
		key := keyName(op.A[0])
		if m[key] != nil {
			return nil // one life per void key: a second Set would only re-save it
		}
		n := &mrec{Kind: "void", ExpiredAt: g.at(op.A[1])}
		resp, err := cl.set(sw, []*hydrapb.KeyValuePair{toKV(key, n)}, true, true)
		if cl.hung != "" {
			return nil
		}
		if err != nil || resp == nil || len(resp.Swamps) != 1 || len(resp.Swamps[0].KeysAndStatuses) != 1 {
			return g.fail("set_error", "op %d: Set(%s, void): %v %v", i, key, resp, err)
		}
		if g.model[sw] == nil {
			g.model[sw] = mswamp{}
		}
		g.markMoved(nil, n)
		g.model[sw][key] = n
	case "patchexp":
		if len(m) == 0 {
			return nil
		}
		now := time.Now().UnixNano()
		lease := now + op.A[0]*int64(time.Second)
		var resp *hydrapb.PatchExpiredTreasuresResponse
		var err error
		cl.call("PatchExpiredTreasures", func() {
			resp, err = g.srv.gw.PatchExpiredTreasures(ctxBg, &hydrapb.PatchExpiredTreasuresRequest{IslandID: 1, SwampName: sw, HowMany: 0,
				Meta: &hydrapb.PatchMeta{SetExpiredAt: timestamppb.New(time.Unix(0, lease))}})
		})
		if cl.hung != "" {
			return nil
		}
		if err != nil || resp == nil {
			return g.fail("patch_expired_error", "op %d: PatchExpiredTreasures: %v", i, err)
		}
		got := map[string]hydrapb.PatchResult_StatusCode{}
		for _, p := range resp.Patched {
			if _, dup := got[p.Key]; dup {
				return g.fail("patch_expired_reports_a_record_twice", "op %d: %s twice in one reply", i, p.Key)
			}
			got[p.Key] = p.Status
		}
		var exp []string
		for k, r := range m {
			if r.ExpiredAt != 0 && r.ExpiredAt < now {
				exp = append(exp, k)
			}
		}
		sort.Strings(exp)
		if len(got) != len(exp) {
			return g.fail("patch_expired_wrong_set", "op %d: PatchExpiredTreasures at now=base%+dms reported %v; the model has expired records %v (expiry offsets ms %v)", i, (now-g.base)/1e6, got, exp, g.expOffsets(m, exp))
		}
		for _, k := range exp {
			st, ok := got[k]
			if !ok {
				return g.fail("patch_expired_wrong_set", "op %d: PatchExpiredTreasures did not report the expired record %s (reported %v)", i, k, got)
			}
			if m[k].Kind == "body" {
				if st != hydrapb.PatchResult_PATCHED {
					return g.fail("patch_expired_status", "op %d: expired record %s with a msgpack body was answered %v", i, k, st)
				}
				n := m[k].clone()
				n.ExpiredAt = lease
				g.markMoved(m[k], n)
				m[k] = n
			} else if st == hydrapb.PatchResult_PATCHED {
				return g.fail("patch_expired_status", "op %d: key-only record %s reported as PATCHED", i, k)
			}
		}
	case "q":
		if len(m) == 0 {
			return nil
		}
		return g.query(i, op, sw)
	}
	return nil
}

func (g *idxRun) expOffsets(m mswamp, keys []string) []int64 {
	var o []int64
	for _, k := range keys {
		o = append(o, (m[k].ExpiredAt-g.base)/1e6)
	}
	return o
}

func (g *idxRun) idxCheckAll(i int, sw, when string) *Result {
	want := g.model[sw]
	if len(want) == 0 {
		return nil
	}
	got, err := g.cl.snapshot(sw)
	if g.cl.hung != "" {
		return nil
	}
	if err != nil {
		return g.fail("swamp_lost_after_"+when, "op %d: %v", i, err)
	}
	if g.c.Prop == "C30" {
		for k, r := range want {
			gr, ok := got[k]
			if !ok {
				return g.fail("record_missing_after_"+when, "op %d: key %s missing after %s", i, k, when)
			}
			if gr.ExpiredAt != r.ExpiredAt && !(r.ExpiredAt < 0 && gr.ExpiredAt == 0) {
				return g.fail("expiry_differs_after_"+when, "op %d: key %s expiry stored %d read %d after %s", i, k, r.ExpiredAt, gr.ExpiredAt, when)
			}
		}
		if len(got) != len(want) {
			return g.fail("record_resurrected_after_"+when, "op %d: %d records after %s, model has %d", i, len(got), when, len(want))
		}
		return nil
	}
	if cls, det := compareSwamp(got, want); cls != "" {
		return g.fail(cls+"_after_"+when, "op %d: after %s: %s", i, when, det)
	}
	return nil
}

// same compares a returned record with the model; for the msgpack-bodied records of C30 the body's "v"
// field and the metadata are compared.
func (g *idxRun) same(tr *hydrapb.Treasure, want *mrec) (string, string) {
	if want.Kind != "body" {
		return sameRecord(fromTreasure(tr), want)
	}
	raw := tr.BytesVal
	if len(raw) >= 2 && raw[0] == 0xC7 && raw[1] == 0x00 {
		raw = raw[2:]
	}
	var b struct {
		V int64 `msgpack:"v"`
	}
	if err := msgpack.Unmarshal(raw, &b); err != nil {
		return "body_unreadable", err.Error()
	}
	if b.V != want.I {
		return "value_differs_body", fmt.Sprintf("stored v=%d read v=%d", want.I, b.V)
	}
	got := fromTreasure(tr)
	switch {
	case got.ExpiredAt != want.ExpiredAt && !(want.ExpiredAt < 0 && got.ExpiredAt == 0):
		// a pre-epoch expiry cannot be represented in the reply (it is reported as unset); what C30 is about
		// is whether the paths agree on expired-ness, which the shift / index oracles check
		return "expired_at_differs", fmt.Sprintf("expiredAt stored %d read %d", want.ExpiredAt, got.ExpiredAt)
	case got.CreatedAt != want.CreatedAt:
		return "created_at_differs", fmt.Sprintf("createdAt stored %d read %d", want.CreatedAt, got.CreatedAt)
	case got.UpdatedAt != want.UpdatedAt:
		return "updated_at_differs", fmt.Sprintf("updatedAt stored %d read %d", want.UpdatedAt, got.UpdatedAt)
	}
	return "", ""
}

// c07kinds: value kinds of a C07 swamp (Cfg vkind) and the value index that goes with each. The model keeps the small
// integer I (-4..4) as the sort key for every kind; what is stored derives from it monotonically.
var c07kinds = []string{"int64", "int8", "int16", "int32", "uint8", "uint16", "uint32", "uint64", "float32", "float64", "string"}
var c07valueIdx = map[string]hydrapb.IndexType_Type{"int64": hydrapb.IndexType_VALUE_INT64, "int8": hydrapb.IndexType_VALUE_INT8, "int16": hydrapb.IndexType_VALUE_INT16, "int32": hydrapb.IndexType_VALUE_INT32,
	"uint8": hydrapb.IndexType_VALUE_UINT8, "uint16": hydrapb.IndexType_VALUE_UINT16, "uint32": hydrapb.IndexType_VALUE_UINT32, "uint64": hydrapb.IndexType_VALUE_UINT64,
	"float32": hydrapb.IndexType_VALUE_FLOAT32, "float64": hydrapb.IndexType_VALUE_FLOAT64, "string": hydrapb.IndexType_VALUE_STRING}

func (g *idxRun) vkind() string { return c07kinds[int(g.c.cfg("vkind", 0))%len(c07kinds)] }

func c07setVal(r *mrec, kind string, i int64) {
	r.Kind, r.I, r.U, r.F, r.S = kind, i, 0, 0, ""
	switch kind {
	case "uint8", "uint16", "uint32", "uint64":
		r.U = uint64(i + 4)
	case "float32", "float64":
		r.F = float64(i) * 0.5
	case "string":
		r.S = fmt.Sprintf("v%d", i+4)
	}
}

var idxTypes = []hydrapb.IndexType_Type{hydrapb.IndexType_KEY, hydrapb.IndexType_CREATION_TIME, hydrapb.IndexType_UPDATE_TIME, hydrapb.IndexType_EXPIRATION_TIME, hydrapb.IndexType_VALUE_INT64}
var idxNames = []string{"key", "creation_time", "update_time", "expiration_time", "value"}

func (g *idxRun) query(i int, op Op, sw string) *Result {
	m := g.model[sw]
	idx, desc, from, limit := op.A[0]%5, op.A[1] == 1, op.A[2], op.A[3]
	if g.c.Prop == "C30" && idx == 4 {
		idx = 3
	}
	req := &hydrapb.GetByIndexRequest{IslandID: 1, SwampName: sw, IndexType: idxTypes[idx], From: int32(from), Limit: int32(limit)}
	if idx == 4 {
		req.IndexType = c07valueIdx[g.vkind()]
	}
	if desc {
		req.OrderType = hydrapb.OrderType_DESC
	}
	fromT, toT := g.at(op.A[4]), g.at(op.A[5])
	timeIdx := idx >= 1 && idx <= 3
	if timeIdx {
		if fromT != 0 {
			req.FromTime = timestamppb.New(time.Unix(0, fromT))
		}
		if toT != 0 {
			req.ToTime = timestamppb.New(time.Unix(0, toT))
		}
	}
	resp := &hydrapb.GetByIndexResponse{}
	var err error
	via := int64(0)
	if len(op.A) > 6 {
		via = op.A[6]
	}
	switch via {
	case 1:
		st := &c08stream{ctx: ctxBg}
		g.cl.call("GetByIndexStream", func() {
			err = g.srv.gw.GetByIndexStream(&hydrapb.GetByIndexStreamRequest{IslandID: 1, SwampName: sw, IndexType: req.IndexType, OrderType: req.OrderType, From: req.From, Limit: req.Limit, FromTime: req.FromTime, ToTime: req.ToTime}, st)
		})
		for _, m := range st.got {
			resp.Treasures = append(resp.Treasures, m.Treasure)
		}
	case 2:
		st := &c10many{ctx: ctxBg}
		g.cl.call("GetByIndexStreamFromMany", func() {
			err = g.srv.gw.GetByIndexStreamFromMany(&hydrapb.GetByIndexStreamFromManyRequest{Queries: []*hydrapb.SwampQuery{{IslandID: 1, SwampName: sw, IndexType: req.IndexType, OrderType: req.OrderType, From: req.From, Limit: req.Limit, FromTime: req.FromTime, ToTime: req.ToTime}}}, st)
		})
		for _, m := range st.got {
			resp.Treasures = append(resp.Treasures, m.Treasure)
		}
	default:
		g.cl.call("GetByIndex", func() { resp, err = g.srv.gw.GetByIndex(ctxBg, req) })
	}
	if g.cl.hung != "" {
		return nil
	}
	if err != nil || resp == nil {
		return g.fail("get_by_index_error", "op %d: GetByIndex(%s) via RPC variant %d: %v", i, idxNames[idx], via, err)
	}
	attr := func(r *mrec) int64 {
		switch idx {
		case 1:
			return r.CreatedAt
		case 2:
			return r.UpdatedAt
		case 3:
			return r.ExpiredAt
		case 4:
			return r.I
		}
		return 0
	}
	var keys []string
	for k, r := range m {
		if timeIdx {
			a := attr(r)
			if a == 0 {
				continue // the record does not carry this attribute
			}
			if fromT != 0 && a < fromT {
				continue
			}
			if toT != 0 && a >= toT {
				continue
			}
		}
		keys = append(keys, k)
	}
	less := func(a, b string) bool {
		if idx == 0 {
			return a < b
		}
		return attr(m[a]) < attr(m[b])
	}
	sort.SliceStable(keys, func(a, b int) bool {
		if desc {
			return less(keys[b], keys[a])
		}
		return less(keys[a], keys[b])
	})
	// page
	var page []string
	if int(from) < len(keys) {
		page = keys[from:]
		if limit > 0 && int(limit) < len(page) {
			page = page[:limit]
		}
	}
	var got []string
	for _, tr := range resp.Treasures {
		got = append(got, tr.Key)
	}
	if g.moved[idx] && g.built[idx] {
		g.requeried = true
	}
	g.built[idx] = true
	g.moved[idx] = false
	describe := func() string {
		var rows []string
		ks := make([]string, 0, len(m))
		for k := range m {
			ks = append(ks, k)
		}
		sort.Strings(ks)
		for _, k := range ks {
			r := m[k]
			rows = append(rows, fmt.Sprintf("%s{v=%d c=%+ds u=%+ds e=%+ds}", k, r.I, offS(r.CreatedAt, g.base), offS(r.UpdatedAt, g.base), offS(r.ExpiredAt, g.base)))
		}
		return fmt.Sprint(rows)
	}
	fail := func(cls string) *Result {
		return g.fail("index_"+idxNames[idx]+"_"+cls, "op %d: %s(%s desc=%v from=%d limit=%d window=[%+ds,%+ds)) returned %v, reference order gives %v; records: %s", i, []string{"GetByIndex", "GetByIndexStream", "GetByIndexStreamFromMany"}[via], idxNames[idx], desc, from, limit, op.A[4], op.A[5], got, page, describe())
	}
	if len(got) != len(page) {
		return fail("wrong_record_count")
	}
	// compare allowing any order inside groups of equal sort keys; the page boundary may cut a tie group, in which case
	// any member of the group is acceptable at the cut
	for j := range page {
		if idx == 0 {
			if got[j] != page[j] {
				return fail("wrong_order")
			}
			continue
		}
		gr, ok := m[got[j]]
		if !ok {
			return fail("unknown_record")
		}
		if attr(gr) != attr(m[page[j]]) {
			return fail("wrong_order")
		}
		if timeIdx && attr(gr) == 0 {
			return fail("record_without_attribute")
		}
	}
	seen := map[string]bool{}
	for _, k := range got {
		if seen[k] {
			return fail("duplicate_record")
		}
		seen[k] = true
	}
	// records returned must carry their model values
	for _, tr := range resp.Treasures {
		if cls, det := g.same(tr, m[tr.Key]); cls != "" {
			return g.fail("index_read_"+cls, "op %d: %s: %s", i, tr.Key, det)
		}
	}
	return nil
}

func offS(v, base int64) int64 {
	if v == 0 {
		return 0
	}
	return (v - base) / int64(time.Second)
}
