package zzharness

import (
	"fmt"
	"testing"

	"github.com/hydraide/hydraide/app/zzsim/simdisk"
	"github.com/hydraide/hydraide/app/zzsim/sos"
)

// C03 — compaction never changes the stored state.
//
// Histories are overwrite/delete heavy so that every trigger fires: inline on
// Write, on Close, self-heal on Load, ForceCompaction, and the command-line
// style entry points (Compactor.Compact / CompactIfNeeded / ForceCompact /
// CompactDirectory) while the swamp is closed. A "<file>.compact" temp file of
// an earlier interrupted compaction may be lying around (valid but stale,
// truncated, empty, garbage). After every entry point the stored state must be
// the model state; every crash point inside a compaction must recover to it.

func init() {
	register(&Property{
		ID:    "C03",
		Level: "fault_enumeration",
		Rule: "seeded overwrite/delete-heavy histories (1..6 keys - or 40..150 keys, which leaves the compaction to the self-heal of the next Load -, 20..350 writes, block 64B..4KiB, threshold 10..60%) interleaved with force/cli compactions (4 entry points), reopen (load self-heal) and planted leftover temp files (4 kinds); " +
			"the stored state is compared with the model after every compaction entry point, and every crash point (with torn variants, and after each rename/remove also with every byte that was not fsynced lost) inside every compaction window is materialised, reloaded and appended to; " +
			"non-trivial = a compaction actually rewrote the file (rename observed); distinct = hash of (history, compaction count, planted kinds) and of each crash image inside a compaction",
		Gen: genC03,
		Run: runC03,
		Assumptions: []string{"crash model as C02", "CLI compaction runs while the server does not have the swamp open (documented usage of hydraidectl compact)"},
		Real:        append([]string{"v2.Compactor.Compact/CompactIfNeeded/ForceCompact/CompactDirectory", "v2.CompactFromIndex (load self-heal)"}, storageReal...),
		Stub:        storageStub,
	})
}

func genC03(seed uint64, tier string) Case {
	r := newRng(seed, "c03")
	c := Case{Prop: "C03", Seed: seed, Cfg: map[string]int64{}}
	c.Cfg["layer"] = 1
	c.Cfg["block"] = []int64{64, 200, 1024, 4096}[r.intn(4)]
	c.Cfg["thr"] = []int64{30, 10, 60}[r.intn(3)]
	if tier == "thorough" {
		c.Cfg["thorough"] = 1
	}
	nkeys := 1 + r.intn(6)
	nops := 20 + r.intn(130)
	if r.chance(1, 2) {
		nops = 100 + r.intn(200) // crosses the 100-entry threshold of the inline trigger
	}
	if r.chance(1, 5) {
		nops = 2 + r.intn(12)
	}
	// wide histories: more than half of the entries in the file stay live, so that neither the inline trigger nor
	// the one on Close compacts (both want total >= 2*live) and the fragmented file is left to the self-heal of the next Load
	wide := r.chance(1, 6)
	if wide {
		nkeys = 40 + r.intn(110)
		nops = 100 + r.intn(250)
		c.Cfg["block"] = []int64{1024, 4096}[r.intn(2)] // a compaction of 100 live records in 64-byte blocks has thousands of crash points
	}
	for i := 0; i < nops; i++ {
		ki := int64(r.intn(nkeys))
		klen := 1 + (ki*7)%23
		if wide {
			klen = 8 + ki%15
		}
		w := []int{70, 14, 4, 4, 3, 3, 2}
		if wide {
			w = []int{160, 16, 6, 12, 1, 1, 2}
		}
		switch r.pick(w...) {
		case 0:
			ops := Op{K: "put", A: []int64{ki % 2, klen, ki, int64(r.intn(60)), int64(r.intn(1 << 20))}}
			c.Ops = append(c.Ops, ops)
		case 1:
			c.Ops = append(c.Ops, Op{K: "del", A: []int64{ki % 2, klen, ki}})
		case 2:
			c.Ops = append(c.Ops, Op{K: "sync"})
		case 3:
			c.Ops = append(c.Ops, Op{K: "reopen"})
		case 4:
			c.Ops = append(c.Ops, Op{K: "force"})
		case 5:
			c.Ops = append(c.Ops, Op{K: "cli", A: []int64{int64(r.intn(4))}})
		default:
			c.Ops = append(c.Ops, Op{K: "plant", A: []int64{int64(r.intn(4)), int64(r.intn(1000))}})
		}
	}
	// always end with something that compacts
	switch r.intn(3) {
	case 0:
		c.Ops = append(c.Ops, Op{K: "cli", A: []int64{int64(r.intn(4))}})
	case 1:
		c.Ops = append(c.Ops, Op{K: "force"})
	}
	return c
}

func runC03(t *testing.T, c Case) (res Result) {
	defer func() {
		if r := recover(); r != nil {
			res = violation("panic", "engine panicked: %v", r)
		}
	}()
	s := newStRun(c)
	s.res = &res
	planted := ""
	// step-wise execution with a state check after every compaction entry point
	if err := s.open(); err != nil {
		return violation("open_failed", "cannot open: %v", err)
	}
	checkNow := func(after string, i int) *Result {
		// look at a copy so that the check's own Load (cleanup, self-heal) does not disturb the run
		img := s.d.Clone()
		got, err := loadImage(img, s.layer, s.block, s.thr)
		sos.SetDisk(s.d)
		s.logs = captureLogs()
		cl := ""
		det := ""
		if err != nil {
			cl, det = "unreadable", err.Error()
		} else {
			cl, det = compareState(got, s.model)
		}
		if cl != "" {
			p := ""
			if planted != "" {
				p = "_with_leftover_temp_" + planted
			}
			v := violation("state_changed_after_"+after+p+"_"+cl, "op %d (%s): stored state differs from the model: %s", i, after, det)
			return &v
		}
		return nil
	}
	plantNames := []string{"valid_stale", "truncated", "empty", "garbage"}
	for i, op := range c.Ops {
		one := Case{Ops: []Op{op}}
		switch op.K {
		case "put", "del", "sync", "flush":
			s.execOps(one)
		case "plant":
			s.execOps(one)
			planted = plantNames[op.A[0]%4]
		case "reopen", "force", "cli":
			r0 := s.d.Stats().Renames
			s.execOps(one)
			if s.failed != nil {
				return *s.failed
			}
			if s.d.Stats().Renames > r0 {
				res.count("compactions_via_"+op.K, 1)
			}
			// the writer may hold buffered entries after reopen/force only if writes followed; here none did
			name := op.K
			if op.K == "cli" {
				name = []string{"cli_Compact", "cli_CompactIfNeeded", "cli_ForceCompact", "cli_CompactDirectory"}[op.A[0]%4]
			}
			if v := checkNow(name, i); v != nil {
				v.Counters = res.Counters
				return *v
			}
			if !s.d.Exists(stHyd + ".compact") {
				planted = ""
			}
		}
	}
	s.barrier(s.closeW())
	if v := checkNow("final_close", len(c.Ops)); v != nil {
		v.Counters = res.Counters
		return *v
	}
	// crash points inside compactions
	log := s.d.Log()
	fpSet := map[uint64]bool{}
	histHash := fnv(c.Seed, len(c.Ops), len(log))
	thorough := c.cfg("thorough", 0) == 1
	for _, w := range s.compWindows {
		for j := w[0] + 1; j < w[1]; j++ {
			if v := s.checkCut(log, j, -1, &res, fpSet, histHash, true); v != nil {
				return *v
			}
			// after a rename or a remove inside the window: the same moment with the data nobody fsynced gone
			if j > 0 && (log[j-1].Kind == simdisk.OpRename || log[j-1].Kind == simdisk.OpRemove) {
				if v := s.checkCut(log, j, simdisk.LoseUnsynced, &res, fpSet, histHash, true); v != nil {
					return *v
				}
			}
			if j < len(log) && log[j].Kind == simdisk.OpWrite {
				n := len(log[j].Data)
				var tears []int
				if thorough && n <= 128 {
					for b := 1; b < n; b++ {
						tears = append(tears, b)
					}
				} else {
					tears = []int{1, n / 2, n - 1}
				}
				for _, b := range tears {
					if b > 0 && b < n {
						if v := s.checkCut(log, j, b, &res, fpSet, histHash, true); v != nil {
							return *v
						}
					}
				}
			}
		}
	}
	st := s.d.Stats()
	res.Verdict = "ok"
	res.Nontrivial = st.Renames > 0
	res.Fingerprint = fnv(histHash, st.Renames, res.Counters["planted_temp_files"])
	res.FPs = append(res.FPs, res.Fingerprint)
	for f := range fpSet {
		res.FPs = append(res.FPs, f)
	}
	res.TraceHash = fnv(len(log), st.BytesWritten, len(s.entries), len(s.durs), st.Renames)
	res.count("histories", 1)
	res.count("compactions(renames)", int64(st.Renames))
	res.States = []uint64{stateHash(s.model)}
	_ = fmt.Sprint
	return res
}
