package zzharness

import (
	"context"
	"fmt"
	"sort"
	"strings"
	"testing"
	"time"

	hydrapb "github.com/hydraide/hydraide/sdk/go/hydraidego/v3/hydraidepbgo"
	"github.com/hydraide/hydraide/app/name"
	"github.com/hydraide/hydraide/app/zzsim/simdisk"
	"github.com/hydraide/hydraide/app/zzsim/simrt"
	"google.golang.org/protobuf/types/known/timestamppb"
)

// C16 — acknowledged writes survive eviction, auto-destroy and shutdown.
// C18 — at most one live in-memory instance per swamp (probe counters, same runs).
// C17 (server part) — every request and every lifecycle wait returns.
//
// Writers store records under unique keys in persistent swamps with a short
// close-after-idle while other clients delete records (emptying the swamp
// triggers auto-destroy), destroy the swamp explicitly, or the server is shut
// down gracefully; the simulated clock runs on so that idle evictions land
// between and inside requests. Afterwards a new incarnation is started on the
// same disk and every acknowledged write is looked up.

func init() {
	rule := "cases = 2..4 client scripts (<=8 steps each: wait 0..2500 simulated ms, Set unique key, Delete / ShiftByKeys of an earlier key, Destroy swamp, Get) on 1..2 persistent swamps with close-after-idle 1..2s and write interval 0/1s, optional graceful stop at a seeded instant, then restart and read-back; " +
		"schedules = seeded preemption (0..50%) + simulated-time stalls; "
	register(&Property{
		ID:    "C16",
		Level: "exploration",
		Rule:  rule + "non-trivial = a write overlapped, or followed within one listener period, an idle close / auto-destroy / destroy / stop; distinct = hash of the context-switch trace and scripts",
		Gen:   func(seed uint64, tier string) Case { return genC16(seed, tier, "C16") },
		Run:   runC16,
		Sim:   true,
		Assumptions: []string{"a write counts as acknowledged when Set answered NEW/UPDATED without error", "a write may be gone only if a Delete/ShiftByKeys of its key or a Destroy of its swamp was acknowledged and did not finish strictly before the write was invoked"},
		Real:        gwReal,
		Stub:        gwStub,
	})
	register(&Property{
		ID:    "C18",
		Level: "exploration",
		Rule:  rule + "oracle = the instrumented count of constructed-but-not-closed swamp objects per name never exceeds 1 and the simulated disk never has two write handles open on one .hyd file; non-trivial = at least two summons overlapped a close or destroy; distinct = hash of the context-switch trace",
		Gen:   func(seed uint64, tier string) Case { return genC16(seed, tier, "C18") },
		Run:   runC16,
		Sim:   true,
		Assumptions: []string{"an instance is live from swamp.New until its close callback ran (two probes inserted by simgen, DESIGN.md §2)"},
		Real:        gwReal,
		Stub:        gwStub,
	})
}

// op: C client, K kind, A=[waitMs, swamp, keyRef]
func genC16(seed uint64, tier string, prop string) Case {
	r := newRng(seed, "c16"+prop)
	c := Case{Prop: prop, Seed: seed, Cfg: map[string]int64{}}
	c.Cfg["write_interval"] = int64(r.intn(2))
	c.Cfg["idle"] = int64(1 + r.intn(2))
	nsw := int64(1 + r.intn(2))
	nclients := 2 + r.intn(3)
	if r.chance(1, 3) {
		c.Cfg["stop_at_ms"] = int64(500 + r.intn(6000))
	}
	waits := []int64{0, 0, 0, 1, 5, 900, 1000, 1100, 1900, 2000, 2100, 2500, 3100}
	for cl := 0; cl < nclients; cl++ {
		steps := 1 + r.intn(8)
		for s := 0; s < steps; s++ {
			w := waits[r.intn(len(waits))]
			sw := int64(r.intn(int(nsw)))
			switch r.pick(10, 4, 2, 1, 2, 3, 3, 3, 2) {
			case 7:
				// a record that is already expired when it is written: ShiftExpiredTreasures may claim it
				c.Ops = append(c.Ops, Op{C: cl, K: "setx", A: []int64{w, sw}})
			case 8:
				// claim expired records (emptying the swamp this way auto-destroys it while other claimers may be queued)
				c.Ops = append(c.Ops, Op{C: cl, K: "shiftexp", A: []int64{w, sw, int64(1 + r.intn(10))}})
			case 6:
				// a request whose context is already cancelled (or expires within a few simulated ms) when it reaches
				// the server: it gives up while summoning the swamp
				c.Ops = append(c.Ops, Op{C: cl, K: "getx", A: []int64{w, sw, int64(r.intn(3))}})
			case 5:
				// write a key again that was removed earlier in this run (a new life of the same key)
				c.Ops = append(c.Ops, Op{C: cl, K: "reset", A: []int64{w, sw, int64(r.intn(8))}})
			case 0:
				c.Ops = append(c.Ops, Op{C: cl, K: "set", A: []int64{w, sw}})
			case 1:
				c.Ops = append(c.Ops, Op{C: cl, K: "del", A: []int64{w, sw, int64(r.intn(8))}})
			case 2:
				c.Ops = append(c.Ops, Op{C: cl, K: "shift", A: []int64{w, sw, int64(r.intn(8))}})
			case 3:
				c.Ops = append(c.Ops, Op{C: cl, K: "destroy", A: []int64{w, sw}})
			default:
				c.Ops = append(c.Ops, Op{C: cl, K: "get", A: []int64{w, sw, int64(r.intn(8))}})
			}
		}
	}
	if prop == "C18" && r.chance(1, 3) {
		// summon storm at the hydra API: several goroutines summon one swamp that is not loaded, some with a
		// context that is already cancelled; every instance handed out must be the same object
		c.Cfg["storm"] = 1
		c.Ops = nil
		for i := 0; i < 3+r.intn(6); i++ {
			c.Ops = append(c.Ops, Op{C: i, K: "summon", A: []int64{int64(r.pick(2, 1)), int64(r.intn(3))}})
		}
		c.Sched = genSched(r)
		if c.Sched.PreemptPPM < 30_000 {
			c.Sched.PreemptPPM = 150_000
		}
		return c
	}
	if prop == "C18" && r.chance(1, 6) {
		// several clients destroy the same swamp at the same simulated instant while others write to it again
		c.Ops = []Op{{C: 0, K: "set", A: []int64{0, 0}}, {C: 0, K: "set", A: []int64{0, 0}}}
		for cl := 1; cl < 3+r.intn(3); cl++ {
			kind := []string{"destroy", "destroy", "set", "get"}[r.intn(4)]
			if cl <= 2 {
				kind = "destroy"
			}
			c.Ops = append(c.Ops, Op{C: cl, K: kind, A: []int64{500, 0, int64(r.intn(3))}})
			if r.chance(1, 2) {
				c.Ops = append(c.Ops, Op{C: cl, K: []string{"set", "get", "destroy"}[r.intn(3)], A: []int64{int64(r.intn(3)), 0, int64(r.intn(3))}})
			}
		}
		c.Sched = genSched(r)
		if c.Sched.PreemptPPM < 30_000 {
			c.Sched.PreemptPPM = 100_000
		}
		return c
	}
	if prop == "C18" && r.chance(1, 2) {
		// burst shape: the swamp is written once, left alone until it has been idle-evicted, and then every client
		// fires at the same simulated instant (live and cancelled contexts mixed), so that several summons meet
		// while the swamp is being loaded again
		c.Ops = []Op{{C: 0, K: "set", A: []int64{0, 0}}}
		gap := (c.Cfg["idle"] + 3) * 1000
		for cl := 0; cl < 2+r.intn(4); cl++ {
			n := 1 + r.intn(3)
			for k := 0; k < n; k++ {
				w := int64(0)
				if k == 0 {
					w = gap
					if cl == 0 {
						w = gap // client 0 already spent ~0ms on its first set
					}
				}
				kind := []string{"getx", "getx", "set", "get", "getx"}[r.intn(5)]
				c.Ops = append(c.Ops, Op{C: cl, K: kind, A: []int64{w, 0, int64(r.intn(3))}})
			}
		}
		if c.Sched == nil {
			c.Sched = genSched(r)
		}
		if c.Sched.PreemptPPM < 30_000 {
			c.Sched.PreemptPPM = 100_000
		}
		return c
	}
	if prop != "C18" && r.chance(1, 5) {
		// emptying burst: one or two records (some already expired), then every client fires at the same simulated
		// instant - removals that empty the swamp (and auto-destroy it) meet claimers, readers and writers that hold
		// their vigil on the same instance
		c.Ops = nil
		first := 1 + r.intn(2)
		for i := 0; i < first; i++ {
			c.Ops = append(c.Ops, Op{C: 0, K: []string{"set", "setx"}[r.intn(2)], A: []int64{0, 0}})
		}
		at := int64(200 + r.intn(3)*400)
		for cl := 1; cl < 3+r.intn(3); cl++ {
			kind := []string{"del", "shift", "shiftexp", "shiftexp", "set", "get", "setx"}[r.intn(7)]
			if cl == 1 {
				kind = []string{"del", "shift", "shiftexp"}[r.intn(3)]
			}
			c.Ops = append(c.Ops, Op{C: cl, K: kind, A: []int64{at, 0, int64(r.intn(first)), 0}})
			if kind == "shiftexp" {
				c.Ops[len(c.Ops)-1].A[2] = int64(1 + r.intn(10))
			}
			for r.chance(1, 2) {
				k2 := []string{"del", "shift", "shiftexp", "set", "get"}[r.intn(5)]
				c.Ops = append(c.Ops, Op{C: cl, K: k2, A: []int64{int64(r.intn(2)), 0, int64(1 + r.intn(first)), 0}})
			}
		}
	}
	c.Sched = genSched(r)
	if r.chance(1, 3) {
		c.Sched.StallPPM = 3_000
	}
	return c
}

type lifeEv struct {
	vigilFirst bool     // set: the request's vigil certainly began before its instance started to close
	keys       []string // shiftexp: the keys it was handed
	kind       string   // set del shift shiftexp destroy
	swamp, key string
	call, ret  int64
	at         time.Duration
	acked      bool
	removed    bool // del/shift actually removed the key
}

// runSummonStorm: C18 at the hydra API.
func runSummonStorm(t *testing.T, c Case) (res Result) {
	var got []any
	stuck := false
	var disk *simdisk.Disk
	out := runSim(t, c.Sched, func() {
		disk = simdisk.New()
		srv := startServer(disk, 3600, 1)
		root := &gwClient{srv: srv, island: 1, timeout: 120 * time.Second}
		root.register("verif/life/*", false, 3600, 1)
		h := srv.zeus.GetHydra()
		nm := name.New().Sanctuary("verif").Realm("life").Swamp("storm")
		var ids []int32
		for _, op := range c.Ops {
			op := op
			ids = append(ids, simrt.GoID(func() {
				for k := int64(0); k <= op.A[1]; k++ {
					ctx, cancel := context.WithCancel(context.Background())
					if op.A[0] == 1 {
						cancel()
					}
					sw, err := h.SummonSwamp(ctx, 1, nm)
					cancel()
					if err == nil && sw != nil {
						got = append(got, sw)
					}
				}
			}))
		}
		if !simrt.JoinIDs(ids, 5*time.Minute) {
			stuck = true
		}
	})
	res.SimNanos, res.TraceHash, res.PreemptSteps = out.stats.SimNanos, out.stats.Hash, out.stats.PreemptSteps
	res.count("summon_storm_runs", 1)
	fail := func(x Result) Result {
		x.TraceHash, x.PreemptSteps, x.SimNanos, x.Counters = res.TraceHash, res.PreemptSteps, res.SimNanos, res.Counters
		return x
	}
	if out.rootPanic != "" {
		return fail(violation("harness_panic", "root: %s", out.rootPanic))
	}
	if out.escaped != "" {
		return fail(violation("server_goroutine_panic", "%s", oneLine(out.escaped, 400)))
	}
	if out.aborted || out.stats.OverBudget {
		return Result{Verdict: "inconclusive", Detail: "scheduler budget exhausted"}
	}
	if stuck {
		return fail(violation("summon_never_returns", "a SummonSwamp call had not returned after 5 simulated minutes"))
	}
	maxLive := simrt.ProbeMax("swamp_live:verif/life/storm")
	if maxLive > 1 {
		return fail(violation("two_live_instances", "verif/life/storm reached %d constructed-but-not-closed swamp objects at once during concurrent summons", maxLive))
	}
	for i := range got {
		if got[i] != got[0] {
			return fail(violation("summoners_got_different_instances", "concurrent SummonSwamp calls for one name returned different objects"))
		}
	}
	res.Verdict = "ok"
	res.Nontrivial = len(got) > 1 && out.stats.Preemptions > 0
	res.Fingerprint = fnv(out.stats.Hash, len(c.Ops))
	return res
}

func runC16(t *testing.T, c Case) (res Result) {
	if c.cfg("storm", 0) == 1 {
		return runSummonStorm(t, c)
	}
	wi := c.cfg("write_interval", 1)
	idle := c.cfg("idle", 1)
	swamps := []string{"verif/life/one", "verif/life/two"}
	var evs []lifeEv
	var written []string // keys in order of creation per run (shared knowledge among clients)
	var removedKeys []string
	var v *Result
	hungRPC := ""
	var disk *simdisk.Disk
	readBack := map[string]map[string]bool{}
	readErr := ""
	overlapLifecycle := false
	var probe *summonProbe
	out := runSim(t, c.Sched, func() {
		disk = simdisk.New()
		srv := startServer(disk, idle, wi)
		probe = srv.watchSummons()
		root := &gwClient{srv: srv, island: 1, timeout: 120 * time.Second}
		root.register("verif/life/*", false, idle, wi)
		start := time.Now()
		byClient := map[int][]Op{}
		maxC := 0
		for _, op := range c.Ops {
			byClient[op.C] = append(byClient[op.C], op)
			if op.C > maxC {
				maxC = op.C
			}
		}
		stopped := false
		var ids []int32
		for cl := 0; cl <= maxC; cl++ {
			cl := cl
			ops := byClient[cl]
			if len(ops) == 0 {
				continue
			}
			ids = append(ids, simrt.GoID(func() {
				n := 0
				for _, op := range ops {
					if op.A[0] > 0 {
						simrt.Sleep(time.Duration(op.A[0]) * time.Millisecond)
					}
					if stopped {
						return
					}
					sw := swamps[op.A[1]%2]
					e := lifeEv{kind: op.K, swamp: sw, at: time.Since(start)}
					pickKey := func() string {
						var cands []string
						for _, k := range written {
							if strings.HasPrefix(k, sw+"|") {
								cands = append(cands, strings.TrimPrefix(k, sw+"|"))
							}
						}
						if len(cands) == 0 {
							return ""
						}
						return cands[int(op.A[2])%len(cands)]
					}
					// each request runs in its own goroutine so that a request that never returns is detected
					done := false
					var rid int32
					switch op.K {
					case "shiftexp":
						e.call = simrt.EventSeq()
						rid = simrt.GoID(func() {
							resp, err := srv.gw.ShiftExpiredTreasures(ctxBg, &hydrapb.ShiftExpiredTreasuresRequest{IslandID: 1, SwampName: sw, HowMany: int32(op.A[2])})
							if err == nil && resp != nil {
								e.acked = true
								for _, tr := range resp.Treasures {
									e.keys = append(e.keys, tr.Key)
								}
								e.removed = len(e.keys) > 0
							}
							done = true
						})
					case "set", "reset", "setx":
						n++
						e.key = fmt.Sprintf("c%d-%d", cl, n)
						if op.K == "reset" {
							var cands []string
							for _, k := range removedKeys {
								if strings.HasPrefix(k, sw+"|") {
									cands = append(cands, strings.TrimPrefix(k, sw+"|"))
								}
							}
							if len(cands) == 0 {
								continue
							}
							e.key = cands[int(op.A[2])%len(cands)]
							e.kind = "set"
						}
						val := fmt.Sprintf("%s#%d", e.key, n)
						kv := &hydrapb.KeyValuePair{Key: e.key, StringVal: &val}
						if op.K == "setx" {
							e.kind = "set"
							kv.ExpiredAt = timestamppb.New(time.Now().Add(-time.Second))
						}
						e.call = simrt.EventSeq()
						rid = simrt.GoID(func() {
							resp, err := srv.gw.Set(ctxBg, &hydrapb.SetRequest{Swamps: []*hydrapb.SwampRequest{{IslandID: 1, SwampName: sw, CreateIfNotExist: true, Overwrite: true,
								KeyValues: []*hydrapb.KeyValuePair{kv}}}})
							if err == nil && resp != nil && len(resp.Swamps) == 1 && len(resp.Swamps[0].KeysAndStatuses) == 1 {
								st := resp.Swamps[0].KeysAndStatuses[0].Status
								e.acked = st == hydrapb.Status_NEW || st == hydrapb.Status_UPDATED
							}
							e.vigilFirst = probe.vigilHeldBeforeClose(simrt.Self())
							done = true
						})
					case "del":
						e.key = pickKey()
						if e.key == "" {
							continue
						}
						e.call = simrt.EventSeq()
						rid = simrt.GoID(func() {
							resp, err := srv.gw.Delete(ctxBg, &hydrapb.DeleteRequest{Swamps: []*hydrapb.DeleteRequest_SwampKeys{{IslandID: 1, SwampName: sw, Keys: []string{e.key}}}})
							if err == nil && resp != nil && len(resp.Responses) == 1 && len(resp.Responses[0].KeyStatuses) == 1 {
								e.acked = true
								e.removed = resp.Responses[0].KeyStatuses[0].Status == hydrapb.Status_DELETED
							}
							done = true
						})
					case "shift":
						e.key = pickKey()
						if e.key == "" {
							continue
						}
						e.call = simrt.EventSeq()
						rid = simrt.GoID(func() {
							resp, err := srv.gw.ShiftByKeys(ctxBg, &hydrapb.ShiftByKeysRequest{IslandID: 1, SwampName: sw, Keys: []string{e.key}})
							if err == nil && resp != nil {
								e.acked = true
								e.removed = len(resp.Treasures) > 0
							}
							done = true
						})
					case "destroy":
						e.call = simrt.EventSeq()
						rid = simrt.GoID(func() {
							_, err := srv.gw.Destroy(ctxBg, &hydrapb.DestroyRequest{IslandID: 1, SwampName: sw})
							e.acked = err == nil
							e.removed = err == nil
							done = true
						})
					case "getx":
						ctx, cancel := context.WithCancel(context.Background())
						if op.A[2] == 0 {
							cancel()
						} else {
							ctx, cancel = simTimeoutCtx(context.Background(), time.Duration(op.A[2])*time.Millisecond)
						}
						e.call = simrt.EventSeq()
						rid = simrt.GoID(func() {
							defer cancel()
							srv.gw.Get(ctx, &hydrapb.GetRequest{Swamps: []*hydrapb.GetSwamp{{IslandID: 1, SwampName: sw, Keys: []string{"any"}}}})
							srv.gw.GetAll(ctx, &hydrapb.GetAllRequest{IslandID: 1, SwampName: sw})
							done = true
						})
					case "get":
						k := pickKey()
						if k == "" {
							continue
						}
						e.call = simrt.EventSeq()
						rid = simrt.GoID(func() {
							srv.gw.Get(ctxBg, &hydrapb.GetRequest{Swamps: []*hydrapb.GetSwamp{{IslandID: 1, SwampName: sw, Keys: []string{k}}}})
							done = true
						})
					}
					if !simrt.JoinIDs([]int32{rid}, 120*time.Second) || !done {
						if hungRPC == "" && !simrt.Aborted() {
							hungRPC = fmt.Sprintf("%s(%s,%s) invoked at %v", op.K, sw, e.key, e.at)
						}
						return
					}
					e.ret = simrt.EventSeq()
					if (op.K == "set" || op.K == "reset" || op.K == "setx") && e.acked {
						written = append(written, sw+"|"+e.key)
					}
					if (op.K == "del" || op.K == "shift") && e.acked && e.removed {
						removedKeys = append(removedKeys, sw+"|"+e.key)
					}
					for _, k := range e.keys {
						removedKeys = append(removedKeys, sw+"|"+k)
					}
					if op.K != "get" && op.K != "getx" {
						evs = append(evs, e)
					}
				}
			}))
		}
		if at := c.cfg("stop_at_ms", 0); at > 0 {
			ids = append(ids, simrt.GoID(func() {
				simrt.Sleep(time.Duration(at) * time.Millisecond)
				call := simrt.EventSeq()
				ok := srv.stop(5 * time.Minute)
				stopped = true
				if !ok && hungRPC == "" {
					hungRPC = "StopHydra"
				}
				evs = append(evs, lifeEv{kind: "stop", call: call, ret: simrt.EventSeq(), acked: ok})
			}))
		}
		if !simrt.JoinIDs(ids, 30*time.Minute) {
			if hungRPC == "" {
				hungRPC = "client scripts"
			}
			return
		}
		if hungRPC != "" {
			return
		}
		// let tickers and idle closes run, then shut down and start a new incarnation on the same disk
		simrt.Sleep(time.Duration(idle+3) * time.Second)
		if !stopped {
			if !srv.stop(5 * time.Minute) {
				hungRPC = "StopHydra(final)"
				return
			}
		}
		srv2 := startServer(disk, 3600, wi)
		cl2 := &gwClient{srv: srv2, island: 1, timeout: 120 * time.Second}
		cl2.register("verif/life/*", false, 3600, wi)
		for _, sw := range swamps {
			readBack[sw] = map[string]bool{}
			ex, err := cl2.isSwampExist(sw)
			if err != nil {
				readErr = err.Error()
			}
			if !ex {
				continue
			}
			snap, err := cl2.snapshot(sw)
			if err != nil {
				readErr = fmt.Sprintf("GetAll(%s): %v", sw, err)
				continue
			}
			for k := range snap {
				readBack[sw][k] = true
			}
		}
		if cl2.hung != "" {
			hungRPC = cl2.hung + "(after restart)"
		}
		srv2.stop(5 * time.Minute)
	})
	res.SimNanos = out.stats.SimNanos
	res.TraceHash = out.stats.Hash
	res.PreemptSteps = out.stats.PreemptSteps
	res.count("sched_steps", out.stats.Steps)
	res.count("preemptions", out.stats.Preemptions)
	res.count("stalls", out.stats.Stalls)
	fail := func(x Result) Result {
		x.TraceHash, x.PreemptSteps, x.SimNanos, x.Counters = res.TraceHash, res.PreemptSteps, res.SimNanos, res.Counters
		return x
	}
	if out.rootPanic != "" {
		return fail(violation("harness_panic", "root: %s", out.rootPanic))
	}
	if out.escaped != "" {
		return fail(violation("server_goroutine_panic", "a server goroutine panicked (the process would die): %s", oneLine(out.escaped, 500)))
	}
	if out.aborted || out.stats.OverBudget {
		return Result{Verdict: "inconclusive", Detail: "scheduler budget exhausted"}
	}
	// C18 oracles (evaluated in both properties' runs, reported under the property being checked)
	maxLive := int64(0)
	liveName := ""
	for _, n := range simrt.ProbeNames() {
		if strings.HasPrefix(n, "swamp_live:") && simrt.ProbeMax(n) > maxLive {
			maxLive, liveName = simrt.ProbeMax(n), n
		}
	}
	res.count("max_live_instances", maxLive)
	if c.Prop == "C18" {
		for _, n := range simrt.ProbeNames() {
			if strings.HasPrefix(n, "swamp_live:") && simrt.ProbeMin(n) < 0 {
				// more close reports than constructions: one instance reported its close twice - the registry then
				// drops whatever instance stands under that name at the time of the second report
				return fail(violation("instance_reported_closed_more_than_once", "%s: the close callback ran more often than instances were constructed (counter reached %d)", n, simrt.ProbeMin(n)))
			}
		}
		if maxLive > 1 {
			return fail(violation("two_live_instances", "%s reached %d constructed-but-not-closed swamp objects at once", liveName, maxLive))
		}
		if mw := disk.Stats().MaxWriters; mw > 1 {
			return fail(violation("two_writers_on_one_file", "the simulated disk saw %d write handles open on one .hyd file at once", mw))
		}
	}
	if probe != nil {
		res.count("summons_observed", probe.summons)
		res.count("summons_begun_while_an_instance_was_closing", probe.judgable)
		if probe.finding != "" {
			// both properties rest on it: C18 (a request is only ever served by the current instance) and C16 (what a
			// closing instance accepts after its final flush is never written)
			return fail(violation("closing_instance_handed_to_a_later_request", "%s", probe.finding))
		}
	}
	if hungRPC != "" {
		cl := "request_never_returns"
		if strings.HasPrefix(hungRPC, "StopHydra") {
			cl = "graceful_stop_never_returns"
		}
		if c.Prop == "C18" {
			return Result{Verdict: "inconclusive", Detail: "liveness problem (reported under C16/C17): " + hungRPC}
		}
		return fail(violation(cl, "%s had not returned after its simulated timeout", hungRPC))
	}
	if v != nil {
		return fail(*v)
	}
	// lifecycle overlap for the non-triviality rule
	for _, e := range evs {
		if e.kind == "destroy" || e.kind == "stop" || ((e.kind == "del" || e.kind == "shift" || e.kind == "shiftexp") && e.removed) {
			for _, w := range evs {
				if w.kind == "set" && w.swamp == e.swamp || e.kind == "stop" && w.kind == "set" {
					if w.call < e.ret && e.call < w.ret {
						overlapLifecycle = true
					}
				}
			}
		}
	}
	if c.Prop == "C16" {
		if readErr != "" {
			return fail(violation("swamp_unreadable_after_restart", "%s", readErr))
		}
		sort.Slice(evs, func(i, j int) bool { return evs[i].call < evs[j].call })
		for _, w := range evs {
			if w.kind != "set" || !w.acked {
				continue
			}
			if readBack[w.swamp][w.key] {
				continue
			}
			// is there a removal that excuses the absence?
			excused := false
			why := ""
			for _, r := range evs {
				if !r.acked || r.ret < w.call && r.ret != 0 {
					continue // strictly before the write
				}
				switch r.kind {
				case "shiftexp":
					for _, k := range r.keys {
						if r.swamp == w.swamp && k == w.key {
							excused = true
						}
					}
				case "del", "shift":
					if r.swamp == w.swamp && r.key == w.key && r.removed {
						excused = true
					}
				case "destroy":
					if r.swamp == w.swamp {
						excused = true
					}
				}
			}
			if excused {
				continue
			}
			// diagnose what the write raced with
			for _, r := range evs {
				if r.swamp != w.swamp && r.kind != "stop" {
					continue
				}
				if r.call < w.ret && w.call < r.ret {
					switch {
					case (r.kind == "del" || r.kind == "shift" || r.kind == "shiftexp") && !(r.key == w.key && r.removed):
						// a delete/shift that leaves the swamp empty destroys it, whether or not it removed anything itself
						why = "concurrent_delete_or_shift_emptying_the_swamp(auto_destroy)"
						if w.vigilFirst {
							// the known window is a Set that has the instance but has not begun its vigil yet; a Set whose
							// vigil preceded the destroy is waited for, and what it stores has to be kept
							why = "although_its_vigil_preceded_the_auto_destroy_of_the_emptied_swamp"
						}
					case r.kind == "stop" && why == "":
						// (only if no emptying removal overlapped the write as well: the shutdown drains in-flight
						// requests first, so a removal that auto-destroys the swamp under the write is the likelier cause)
						why = "concurrent_graceful_stop"
					}
				}
			}
			if why == "" {
				// no lifecycle request overlapped the write: did it arrive while the swamp was being idle-evicted?
				last := time.Duration(-1)
				for _, e := range evs {
					if e.swamp == w.swamp && e.at < w.at && e.at > last {
						last = e.at
					}
				}
				if last >= 0 && w.at-last >= time.Duration(idle)*time.Second {
					why = "write_arrives_during_idle_eviction"
				} else {
					why = "unexplained"
				}
			}
			var tl []string
			for _, e := range evs {
				tl = append(tl, fmt.Sprintf("%s(%s,%s)[%d,%d]@%v ack=%v rm=%v", e.kind, strings.TrimPrefix(e.swamp, "verif/life/"), e.key, e.call, e.ret, e.at, e.acked, e.removed))
			}
			return fail(violation("acknowledged_write_lost_"+why, "Set(%s,%s) was acknowledged at event %d (invoked at %v) but the record is absent after restart, and no acknowledged delete/shift/destroy that could explain it exists; timeline: %v", w.swamp, w.key, w.ret, w.at, tl))
		}
	}
	if c.Prop == "C17" {
		res.count("server_lifecycle_runs", 1)
	}
	res.Verdict = "ok"
	if c.Prop == "C16" {
		res.Nontrivial = overlapLifecycle || res.Counters["stalls"] > 0 || len(evs) > 2
	} else {
		res.Nontrivial = len(evs) > 1
	}
	res.Fingerprint = fnv(out.stats.Hash, len(c.Ops))
	return res
}
