package zzharness

import (
	"fmt"
	"sort"
	"testing"
	"time"

	"github.com/anishathalye/porcupine"
	hydrapb "github.com/hydraide/hydraide/sdk/go/hydraidego/v3/hydraidepbgo"
	"github.com/hydraide/hydraide/app/zzsim/simdisk"
	"github.com/hydraide/hydraide/app/zzsim/simrt"
	"github.com/vmihailenco/msgpack/v5"
	"google.golang.org/grpc/codes"
	"google.golang.org/grpc/status"
)

// C09 — concurrent writes on a key are linearizable; no lost updates.
//
// 2..4 clients issue Set (unique values), IncrementInt64, PatchTreasures (INC
// and SET of unique values on a msgpack body), Delete, ShiftByKeys and Get on
// 1..3 shared keys of one swamp while the seeded scheduler decides every
// interleaving. The recorded invoke/return history (stamped with the
// simulator's event sequence numbers) plus one final read per key is checked
// against the sequential model with porcupine.

func init() {
	register(&Property{
		ID:    "C09",
		Level: "exploration",
		Rule: "cases = 2..4 clients x <=24 operations over 1..3 keys (numeric keys: Set unique int64 / IncrementInt64 / Delete / ShiftByKeys / Get; body keys: PatchTreasures INC + SET unique / Delete / Get), swamp persistent or in-memory, write interval 0 or 1s; " +
			"schedules = seeded preemption at synchronisation points (0..50%) plus seeded stalls of simulated time; oracle = porcupine linearizability check of the history + final reads (30s cap, Unknown = inconclusive); " +
			"non-trivial = at least one preemption inside a request and at least two operations overlapped; distinct = hash of the context-switch trace",
		Gen: genC09,
		Run: runC09,
		Sim: true,
		Assumptions: []string{"an anchor record keeps the swamp non-empty so that the auto-destroy path (C16) is not part of this property's histories",
			"every written value is unique, so each read is attributable to one write"},
		Real: gwReal,
		Stub: gwStub,
	})
}

func genC09(seed uint64, tier string) Case {
	r := newRng(seed, "c09")
	c := Case{Prop: "C09", Seed: seed, Cfg: map[string]int64{}}
	c.Cfg["write_interval"] = int64(r.intn(2))
	c.Cfg["mem"] = int64(r.pick(3, 1))
	nclients := 2 + r.intn(3)
	nkeys := 1 + r.intn(3)
	total := 4 + r.intn(21)
	uniq := int64(0)
	for i := 0; i < total; i++ {
		cl := r.intn(nclients)
		key := int64(r.intn(nkeys))
		body := key == 2 // key index 2 holds a msgpack body and is driven through PatchTreasures
		uniq++
		if body {
			switch r.pick(4, 3, 2, 2, 3) {
			case 4:
				// compare-and-act: INC n by 1 only if n < threshold (two of them must never both succeed on n = threshold-1)
				c.Ops = append(c.Ops, Op{C: cl, K: "pcas", A: []int64{key, []int64{1, 2, 3, 10}[r.intn(4)]}})
			case 0:
				c.Ops = append(c.Ops, Op{C: cl, K: "pinc", A: []int64{key, int64(1 + r.intn(9))}})
			case 1:
				c.Ops = append(c.Ops, Op{C: cl, K: "pset", A: []int64{key, uniq * 1000}})
			case 2:
				c.Ops = append(c.Ops, Op{C: cl, K: "get", A: []int64{key}})
			default:
				c.Ops = append(c.Ops, Op{C: cl, K: "del", A: []int64{key}})
			}
			continue
		}
		switch r.pick(4, 5, 2, 1, 3, 3) {
		case 5:
			// conditional increment: +by only if the value is below the threshold (a missing record counts as 0)
			c.Ops = append(c.Ops, Op{C: cl, K: "cinc", A: []int64{key, int64(1 + r.intn(3)), []int64{1, 2, 4, 10, 5000000}[r.intn(5)]}})
		case 0:
			c.Ops = append(c.Ops, Op{C: cl, K: "set", A: []int64{key, uniq * 1000000}})
		case 1:
			c.Ops = append(c.Ops, Op{C: cl, K: "inc", A: []int64{key, int64(1 + r.intn(9))}})
		case 2:
			c.Ops = append(c.Ops, Op{C: cl, K: "del", A: []int64{key}})
		case 3:
			c.Ops = append(c.Ops, Op{C: cl, K: "shift", A: []int64{key}})
		default:
			c.Ops = append(c.Ops, Op{C: cl, K: "get", A: []int64{key}})
		}
	}
	c.Sched = genSched(r)
	if c.Sched.PreemptPPM == 0 {
		c.Sched.PreemptPPM = 20_000
	}
	if r.chance(1, 3) {
		c.Sched.StallPPM = 2_000
	}
	return c
}

type linIn struct {
	Op   string
	Key  int64
	Arg  int64
	Arg2 int64
}

// linOut: Found/Val describe the record as the operation saw or left it.
type linOut struct {
	Status string // NEW UPDATED DELETED NOT_FOUND OK ERR:<x>
	Found  bool
	N      int64 // numeric value, or body field n
	V      int64 // body field v
}

type body struct {
	N int64 `msgpack:"n"`
	V int64 `msgpack:"v"`
}

type kvState struct {
	Present bool
	N, V    int64
}

var c09Model = porcupine.Model{
	Partition: func(history []porcupine.Operation) [][]porcupine.Operation {
		m := map[int64][]porcupine.Operation{}
		for _, op := range history {
			k := op.Input.(linIn).Key
			m[k] = append(m[k], op)
		}
		var keys []int64
		for k := range m {
			keys = append(keys, k)
		}
		sort.Slice(keys, func(i, j int) bool { return keys[i] < keys[j] })
		var out [][]porcupine.Operation
		for _, k := range keys {
			out = append(out, m[k])
		}
		return out
	},
	Init: func() interface{} { return kvState{} },
	Step: func(state, input, output interface{}) (bool, interface{}) {
		s := state.(kvState)
		in := input.(linIn)
		o := output.(linOut)
		switch in.Op {
		case "set":
			want := "UPDATED"
			if !s.Present {
				want = "NEW"
			}
			return o.Status == want, kvState{Present: true, N: in.Arg}
		case "inc":
			cur := int64(0)
			if s.Present {
				cur = s.N
			}
			return o.Status == "OK" && o.N == cur+in.Arg, kvState{Present: true, N: cur + in.Arg}
		case "cinc":
			cur := int64(0)
			if s.Present {
				cur = s.N
			}
			thr := in.Arg2
			if cur < thr {
				return o.Status == "OK" && o.N == cur+in.Arg, kvState{Present: true, N: cur + in.Arg}
			}
			return o.Status == "NOINC" && o.N == cur, s
		case "pcas":
			cur := kvState{Present: true}
			if s.Present {
				cur = s
			}
			if cur.N < in.Arg {
				want := "PATCHED"
				if !s.Present {
					want = "CREATED"
				}
				cur.N++
				return o.Status == want, cur
			}
			return o.Status == "CONDITION_NOT_MET", s
		case "pinc":
			n := s
			if !s.Present {
				n = kvState{Present: true}
			}
			n.N += in.Arg
			want := "PATCHED"
			if !s.Present {
				want = "CREATED"
			}
			return o.Status == want, n
		case "pset":
			n := s
			if !s.Present {
				n = kvState{Present: true}
			}
			n.V = in.Arg
			want := "PATCHED"
			if !s.Present {
				want = "CREATED"
			}
			return o.Status == want, n
		case "del":
			if s.Present {
				return o.Status == "DELETED", kvState{}
			}
			return o.Status == "NOT_FOUND", s
		case "shift":
			if s.Present {
				return o.Status == "OK" && o.Found && o.N == s.N, kvState{}
			}
			return o.Status == "OK" && !o.Found, s
		case "get":
			if s.Present {
				return o.Status == "OK" && o.Found && o.N == s.N && o.V == s.V, s
			}
			return o.Status == "OK" && !o.Found, s
		}
		return false, s
	},
	Equal: func(a, b interface{}) bool { return a.(kvState) == b.(kvState) },
	DescribeOperation: func(input, output interface{}) string {
		return fmt.Sprintf("%+v -> %+v", input, output)
	},
}

func errStatus(err error) string {
	if st, ok := status.FromError(err); ok {
		return "ERR:" + st.Code().String()
	}
	return "ERR:" + err.Error()
}

func runC09(t *testing.T, c Case) (res Result) {
	swamp := "verif/per/lin"
	if c.cfg("mem", 0) == 1 {
		swamp = "verif/mem/lin"
	}
	wi := c.cfg("write_interval", 1)
	var hist []porcupine.Operation
	var v *Result
	stuck := false
	panicked := ""
	out := runSim(t, c.Sched, func() {
		disk := simdisk.New()
		srv := startServer(disk, 3600, wi)
		gw := srv.gw
		root := &gwClient{srv: srv, island: 1, timeout: 120 * time.Second}
		root.register("verif/per/*", false, 3600, wi)
		root.register("verif/mem/*", true, 3600, 0)
		sv := "anchor"
		root.set(swamp, []*hydrapb.KeyValuePair{{Key: "anchor", StringVal: &sv}}, true, true)
		byClient := map[int][]Op{}
		maxC := 0
		for _, op := range c.Ops {
			byClient[op.C] = append(byClient[op.C], op)
			if op.C > maxC {
				maxC = op.C
			}
		}
		do := func(client int, op Op) {
			key := fmt.Sprintf("key%d", op.A[0])
			in := linIn{Op: op.K, Key: op.A[0]}
			if len(op.A) > 1 {
				in.Arg = op.A[1]
			}
			if len(op.A) > 2 {
				in.Arg2 = op.A[2]
			}
			call := simrt.EventSeq()
			var o linOut
			switch op.K {
			case "set":
				val := op.A[1]
				resp, err := gw.Set(ctxBg, &hydrapb.SetRequest{Swamps: []*hydrapb.SwampRequest{{IslandID: 1, SwampName: swamp, CreateIfNotExist: true, Overwrite: true,
					KeyValues: []*hydrapb.KeyValuePair{{Key: key, Int64Val: &val}}}}})
				switch {
				case err != nil:
					o.Status = errStatus(err)
				case resp == nil || len(resp.Swamps) != 1 || len(resp.Swamps[0].KeysAndStatuses) != 1:
					o.Status = "ERR:malformed"
				default:
					o.Status = resp.Swamps[0].KeysAndStatuses[0].Status.String()
				}
			case "inc":
				resp, err := gw.IncrementInt64(ctxBg, &hydrapb.IncrementInt64Request{IslandID: 1, SwampName: swamp, Key: key, IncrementBy: op.A[1]})
				switch {
				case err != nil:
					o.Status = errStatus(err)
				case resp == nil:
					o.Status = "ERR:nil_response"
				case !resp.IsIncremented:
					o.Status = "ERR:not_incremented"
				default:
					o.Status, o.N = "OK", resp.Value
				}
			case "cinc":
				resp, err := gw.IncrementInt64(ctxBg, &hydrapb.IncrementInt64Request{IslandID: 1, SwampName: swamp, Key: key, IncrementBy: op.A[1],
					Condition: &hydrapb.IncrementInt64Condition{RelationalOperator: hydrapb.Relational_LESS_THAN, Value: op.A[2]}})
				switch {
				case err != nil:
					o.Status = errStatus(err)
				case resp == nil:
					o.Status = "ERR:nil_response"
				case !resp.IsIncremented:
					o.Status, o.N = "NOINC", resp.Value
				default:
					o.Status, o.N = "OK", resp.Value
				}
			case "pcas":
				one, _ := msgpack.Marshal(int64(1))
				thr, _ := msgpack.Marshal(op.A[1])
				init, _ := msgpack.Marshal(map[string]int64{"n": 0, "v": 0})
				resp, err := gw.PatchTreasures(ctxBg, &hydrapb.PatchTreasuresRequest{IslandID: 1, SwampName: swamp, CreateIfNotExist: true, InitialMsgpackOnCreate: init,
					Patches: []*hydrapb.TreasurePatch{{Key: key, Ops: []*hydrapb.PatchOp{{Op: hydrapb.PatchOp_INC, Path: "n", Value: one}},
						Condition: &hydrapb.PatchCondition{Path: "n", Operator: hydrapb.PatchCondition_LESS_THAN, Threshold: thr}}}})
				switch {
				case err != nil:
					o.Status = errStatus(err)
				case resp == nil || len(resp.Results) != 1:
					o.Status = "ERR:malformed"
				default:
					o.Status = resp.Results[0].Status.String()
				}
			case "pinc", "pset":
				pop := &hydrapb.PatchOp{Op: hydrapb.PatchOp_INC, Path: "n"}
				if op.K == "pset" {
					pop = &hydrapb.PatchOp{Op: hydrapb.PatchOp_SET, Path: "v"}
				}
				pop.Value, _ = msgpack.Marshal(op.A[1])
				init, _ := msgpack.Marshal(map[string]int64{"n": 0, "v": 0})
				resp, err := gw.PatchTreasures(ctxBg, &hydrapb.PatchTreasuresRequest{IslandID: 1, SwampName: swamp, CreateIfNotExist: true, InitialMsgpackOnCreate: init,
					Patches: []*hydrapb.TreasurePatch{{Key: key, Ops: []*hydrapb.PatchOp{pop}}}})
				switch {
				case err != nil:
					o.Status = errStatus(err)
				case resp == nil || len(resp.Results) != 1:
					o.Status = "ERR:malformed"
				default:
					o.Status = resp.Results[0].Status.String()
				}
			case "del":
				resp, err := gw.Delete(ctxBg, &hydrapb.DeleteRequest{Swamps: []*hydrapb.DeleteRequest_SwampKeys{{IslandID: 1, SwampName: swamp, Keys: []string{key}}}})
				switch {
				case err != nil:
					o.Status = errStatus(err)
				case resp == nil || len(resp.Responses) != 1:
					o.Status = "ERR:malformed"
				case resp.Responses[0].ErrorCode != nil || len(resp.Responses[0].KeyStatuses) != 1:
					o.Status = "ERR:swamp_missing"
				default:
					o.Status = resp.Responses[0].KeyStatuses[0].Status.String()
				}
			case "shift":
				resp, err := gw.ShiftByKeys(ctxBg, &hydrapb.ShiftByKeysRequest{IslandID: 1, SwampName: swamp, Keys: []string{key}})
				switch {
				case err != nil:
					o.Status = errStatus(err)
				case resp == nil:
					o.Status = "ERR:nil_response"
				default:
					o.Status = "OK"
					if len(resp.Treasures) == 1 {
						o.Found = true
						o.N = resp.Treasures[0].GetInt64Val()
					} else if len(resp.Treasures) > 1 {
						o.Status = "ERR:too_many"
					}
				}
			case "get":
				resp, err := gw.Get(ctxBg, &hydrapb.GetRequest{Swamps: []*hydrapb.GetSwamp{{IslandID: 1, SwampName: swamp, Keys: []string{key}}}})
				switch {
				case err != nil:
					if st, ok := status.FromError(err); ok && st.Code() == codes.FailedPrecondition {
						o.Status = "OK" // swamp does not exist: the key is absent
					} else {
						o.Status = errStatus(err)
					}
				case resp == nil || len(resp.Swamps) != 1:
					o.Status = "ERR:malformed"
				case !resp.Swamps[0].IsExist:
					o.Status = "OK"
				case len(resp.Swamps[0].Treasures) != 1:
					o.Status = "ERR:malformed"
				default:
					o.Status = "OK"
					tr := resp.Swamps[0].Treasures[0]
					if tr.IsExist {
						o.Found = true
						if tr.BytesVal != nil {
							var b body
							raw := tr.BytesVal
							if len(raw) >= 2 && raw[0] == 0xC7 && raw[1] == 0x00 {
								raw = raw[2:] // msgpack bodies are stored behind a two byte magic prefix
							}
							if err := msgpack.Unmarshal(raw, &b); err != nil {
								o.Status = "ERR:bad_body"
							}
							o.N, o.V = b.N, b.V
						} else {
							o.N = tr.GetInt64Val()
						}
					}
				}
			}
			ret := simrt.EventSeq()
			hist = append(hist, porcupine.Operation{ClientId: client, Input: in, Call: call, Output: o, Return: ret})
		}
		var ids []int32
		for cl := 0; cl <= maxC; cl++ {
			cl := cl
			ops := byClient[cl]
			if len(ops) == 0 {
				continue
			}
			ids = append(ids, simrt.GoID(func() {
				for _, op := range ops {
					do(cl, op)
				}
			}))
		}
		if !simrt.JoinIDs(ids, 10*time.Minute) {
			stuck = true
			return
		}
		// final read of every key, sequentially
		keys := map[int64]bool{}
		for _, op := range c.Ops {
			keys[op.A[0]] = true
		}
		var ks []int64
		for k := range keys {
			ks = append(ks, k)
		}
		sort.Slice(ks, func(i, j int) bool { return ks[i] < ks[j] })
		for _, k := range ks {
			id := simrt.GoID(func() { do(99, Op{K: "get", A: []int64{k}}) })
			if !simrt.JoinIDs([]int32{id}, 2*time.Minute) {
				stuck = true
				return
			}
		}
		if e := srv.logs.find("grpc gateway panic"); e != "" {
			panicked = e
		}
	})
	res.SimNanos = out.stats.SimNanos
	res.TraceHash = out.stats.Hash
	res.PreemptSteps = out.stats.PreemptSteps
	res.count("sched_steps", out.stats.Steps)
	res.count("preemptions", out.stats.Preemptions)
	res.count("stalls", out.stats.Stalls)
	fail := func(x Result) Result {
		x.TraceHash, x.PreemptSteps, x.SimNanos, x.Counters = res.TraceHash, res.PreemptSteps, res.SimNanos, res.Counters
		return x
	}
	cfgSig := fmt.Sprintf("wi%d_mem%d", wi, c.cfg("mem", 0))
	if out.rootPanic != "" {
		return fail(violation("harness_panic", "root: %s", out.rootPanic))
	}
	if out.escaped != "" {
		return fail(violation("server_goroutine_panic_"+cfgSig, "a server goroutine panicked (the process would die): %s", oneLine(out.escaped, 500)))
	}
	if panicked != "" {
		return fail(violation("request_panicked_"+cfgSig, "a request handler panicked under concurrency: %s", oneLine(panicked, 500)))
	}
	if v != nil {
		return fail(*v)
	}
	if out.aborted || out.stats.OverBudget {
		return Result{Verdict: "inconclusive", Detail: "scheduler budget exhausted"}
	}
	if stuck {
		return fail(violation("requests_never_return_"+cfgSig, "concurrent requests had not all returned after 10 simulated minutes"))
	}
	for _, op := range hist {
		if o := op.Output.(linOut); len(o.Status) > 4 && o.Status[:4] == "ERR:" {
			return fail(violation("request_failed_"+cfgSig, "client %d: %+v answered %s", op.ClientId, op.Input, o.Status))
		}
	}
	overlap := false
	for i := range hist {
		for j := range hist {
			if i != j && hist[i].Call < hist[j].Return && hist[j].Call < hist[i].Return && hist[i].Input.(linIn).Key == hist[j].Input.(linIn).Key {
				overlap = true
			}
		}
	}
	r := porcupine.CheckOperationsTimeout(c09Model, hist, 30*time.Second)
	switch r {
	case porcupine.Illegal:
		var lines []string
		sort.Slice(hist, func(i, j int) bool { return hist[i].Call < hist[j].Call })
		for _, op := range hist {
			lines = append(lines, fmt.Sprintf("c%d [%d,%d] %+v -> %+v", op.ClientId, op.Call, op.Return, op.Input, op.Output))
		}
		// diagnosis: does a removal (delete / shift) overlap another operation on the same key?
		diag := "other"
		for i := range hist {
			for j := range hist {
				a, b := hist[i], hist[j]
				ai, bi := a.Input.(linIn), b.Input.(linIn)
				if i == j || ai.Key != bi.Key || !(a.Call < b.Return && b.Call < a.Return) {
					continue
				}
				if ai.Op == "del" || ai.Op == "shift" {
					if bi.Op == "get" {
						if diag == "other" {
							diag = "removal_overlaps_read"
						}
					} else {
						diag = "removal_overlaps_write"
					}
				}
			}
		}
		return fail(violation("not_linearizable_"+diag, "[%s] no serial order explains this history: %v", cfgSig, lines))
	case porcupine.Unknown:
		return Result{Verdict: "inconclusive", Detail: "porcupine timed out"}
	}
	res.Verdict = "ok"
	res.Nontrivial = overlap && out.stats.Preemptions > 0
	res.Fingerprint = fnv(out.stats.Hash, len(c.Ops))
	return res
}
