// Package zzharness drives the deterministic simulation of hydraide: it
// generates cases from seeds, runs them against the instrumented real code,
// evaluates the property oracles, shrinks and replays failures and writes the
// evidence files. It is copied into the instrumented scratch tree as
// app/zzharness and built as a test binary (testing/synctest needs *testing.T).
package zzharness

import (
	"encoding/json"
	"fmt"
	"os"
	"sort"
	"strings"
	"testing"
)

// Op is one generated operation of a case.
type Op struct {
	C int      `json:"c,omitempty"` // client / task index
	K string   `json:"k"`           // kind
	A []int64  `json:"a,omitempty"` // integer arguments
	S []string `json:"s,omitempty"` // string arguments
}

// Sched fixes the schedule of a simulated run.
type Sched struct {
	Seed       uint64  `json:"seed"`
	PreemptPPM uint32  `json:"preempt_ppm,omitempty"`
	StallPPM   uint32  `json:"stall_ppm,omitempty"`
	HotPPM     uint32  `json:"hot_ppm,omitempty"` // preemption probability in front of a record-guard acquisition
	HoldMax    uint32  `json:"hold_max,omitempty"` // a preempted goroutine stays preempted for up to this many scheduler steps
	Explicit   bool    `json:"explicit,omitempty"`
	Steps      []int64 `json:"steps,omitempty"`
}

// Case is one fully determined execution: replaying a Case reproduces it.
type Case struct {
	Prop  string           `json:"prop"`
	Seed  uint64           `json:"seed"`
	Cfg   map[string]int64 `json:"cfg,omitempty"`
	Ops   []Op             `json:"ops"`
	Sched *Sched           `json:"sched,omitempty"`
}

func (c Case) cfg(k string, def int64) int64 {
	if v, ok := c.Cfg[k]; ok {
		return v
	}
	return def
}

func (c Case) clone() Case {
	b, _ := json.Marshal(c)
	var n Case
	json.Unmarshal(b, &n)
	return n
}

// Result is the outcome of running one case.
type Result struct {
	Verdict     string           `json:"verdict"` // ok | violation | inconclusive | infra
	Class       string           `json:"class,omitempty"`
	Detail      string           `json:"detail,omitempty"`
	// Classes lists every violation class of the run when one run can show several independent ones
	// (C10: each race report is its own class); Class is then the first of them. Details maps class -> detail.
	Classes []string          `json:"classes,omitempty"`
	Details map[string]string `json:"details,omitempty"`
	Nontrivial  bool             `json:"nontrivial"`
	Fingerprint uint64           `json:"fingerprint"`
	TraceHash   uint64           `json:"trace_hash"`
	Counters    map[string]int64 `json:"counters,omitempty"`
	SimNanos    int64            `json:"sim_nanos,omitempty"`
	States      []uint64         `json:"-"` // abstract state hashes seen
	FPs         []uint64         `json:"-"` // fingerprints of the distinct non-trivial sub-cases of this run (crash images, fault placements)
	// PreemptSteps is filled by scheduled runs so the shrinker can switch the
	// case to an explicit preemption list.
	PreemptSteps []int64 `json:"-"`
}

// hasClass reports whether the run showed the given violation class.
func (r *Result) hasClass(class string) bool {
	if r.Verdict != "violation" {
		return false
	}
	if r.Class == class {
		return true
	}
	for _, c := range r.Classes {
		if c == class {
			return true
		}
	}
	return false
}

func (r *Result) detailOf(class string) string {
	if d, ok := r.Details[class]; ok {
		return d
	}
	return r.Detail
}

func (r *Result) count(k string, n int64) {
	if r.Counters == nil {
		r.Counters = map[string]int64{}
	}
	r.Counters[k] += n
}

func violation(class, f string, a ...any) Result {
	return Result{Verdict: "violation", Class: class, Detail: fmt.Sprintf(f, a...)}
}

// Property is one checkable property.
type Property struct {
	MemLimitGB int // >0: worker processes run with this bound on their address space (RLIMIT_AS)
	ID    string
	Level string // exploration | fault_enumeration
	Rule  string // how cases are generated and what makes one non-trivial
	Gen   func(seed uint64, tier string) Case
	Run   func(t *testing.T, c Case) Result
	// Simplify proposes property-specific smaller variants of a failing case.
	Simplify    func(c Case) []Case
	Assumptions []string
	Real        []string
	Stub        []string
	// Sim is true when Run executes inside synctest bubbles with the scheduler
	// (the process is then a sim process: shims are no-ops outside runs).
	Sim bool
	// SimCase, if set, tells per case whether it runs inside bubbles: the property then mixes storage-level cases
	// (real primitives, no scheduler) with whole-server cases. A process runs only one of the two kinds: the
	// driver gives a quarter of its workers the tier "<tier>+sim", which Gen turns into whole-server cases.
	SimCase func(c Case) bool
}

var registry = map[string]*Property{}

func register(p *Property) { registry[p.ID] = p }

func propIDs() []string {
	var ids []string
	for k := range registry {
		ids = append(ids, k)
	}
	sort.Strings(ids)
	return ids
}

// ---------------------------------------------------------------------------
// PRNG for generators

type rng struct{ s uint64 }

func newRng(seed uint64, label string) *rng {
	h := seed ^ 0x9e3779b97f4a7c15
	for _, c := range []byte(label) {
		h = (h ^ uint64(c)) * 0x100000001b3
	}
	return &rng{s: h}
}

func (r *rng) next() uint64 {
	r.s += 0x9e3779b97f4a7c15
	x := r.s
	x = (x ^ (x >> 30)) * 0xbf58476d1ce4e5b9
	x = (x ^ (x >> 27)) * 0x94d049bb133111eb
	return x ^ (x >> 31)
}

func (r *rng) intn(n int) int {
	if n <= 0 {
		return 0
	}
	return int(r.next() % uint64(n))
}

func (r *rng) i64n(n int64) int64 {
	if n <= 0 {
		return 0
	}
	return int64(r.next() % uint64(n))
}

func (r *rng) chance(num, den int) bool { return r.intn(den) < num }

func (r *rng) pick(ws ...int) int {
	t := 0
	for _, w := range ws {
		t += w
	}
	x := r.intn(t)
	for i, w := range ws {
		if x < w {
			return i
		}
		x -= w
	}
	return len(ws) - 1
}

func fnv(parts ...any) uint64 {
	h := uint64(0xcbf29ce484222325)
	for _, p := range parts {
		s := fmt.Sprint(p)
		for i := 0; i < len(s); i++ {
			h = (h ^ uint64(s[i])) * 0x100000001b3
		}
		h = (h ^ 0xff) * 0x100000001b3
	}
	return h
}

// ---------------------------------------------------------------------------
// known findings

type knownFinding struct {
	Property string `json:"property"`
	Class    string `json:"class"`
	Status   string `json:"status"` // known | fixed
	What     string `json:"what"`
	Commit   string `json:"commit,omitempty"`
}

func loadKnown(path string) []knownFinding {
	b, err := os.ReadFile(path)
	if err != nil {
		return nil
	}
	var out []knownFinding
	for _, line := range strings.Split(string(b), "\n") {
		line = strings.TrimSpace(line)
		if line == "" || strings.HasPrefix(line, "#") || strings.HasPrefix(line, "fixed:") {
			continue
		}
		var k knownFinding
		if err := json.Unmarshal([]byte(line), &k); err != nil {
			fmt.Fprintf(os.Stderr, "harness: bad known_findings line: %v\n", err)
			os.Exit(2)
		}
		out = append(out, k)
	}
	return out
}

func isKnown(known []knownFinding, prop, class string) *knownFinding {
	for i := range known {
		if known[i].Property == prop && known[i].Status == "known" && known[i].Class == class {
			return &known[i]
		}
	}
	return nil
}
