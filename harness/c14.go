package zzharness

import (
	"context"
	"fmt"
	"os"
	"reflect"
	"sort"
	"testing"
	"time"
	"unsafe"

	"github.com/hydraide/hydraide/app/core/hydra/lock"
	"github.com/hydraide/hydraide/app/zzsim/simdisk"
	"github.com/hydraide/hydraide/app/zzsim/simrt"
	hydrapb "github.com/hydraide/hydraide/sdk/go/hydraidego/v3/hydraidepbgo"
)

// C14 — business lock: exclusive, FIFO, TTL-released, deadlock-free.
// C28 — lock bookkeeping does not grow with the number of keys ever used
// (same harness, different workload and oracle).

func init() {
	register(&Property{
		ID:    "C14",
		Level: "exploration",
		Rule: "cases = 2..6 caller scripts on 1..2 keys: arrive at a seeded simulated instant (few distinct instants, so callers collide), Lock with TTL 1..400ms and optional context timeout, hold, then unlock with own / stale / foreign / random id or never; a third of the cases go through Gateway.Lock/Unlock of an in-process server (TTL floor 1000 ms, TTLs 1..1600 ms, the wait ignores the caller's cancellation); " +
			"the scheduler decides every interleaving (preemption probability 0..50% per synchronisation point, seeded); non-trivial = at least one caller was queued behind a holder; distinct = hash of the scheduler's context-switch trace and the scripts",
		Gen: genC14,
		Run: runC14,
		Sim: true,
		Assumptions: []string{"hold intervals are observed conservatively (from after Lock returned to before Unlock is called), so an overlap of observed intervals is a real overlap",
			"FIFO is checked only between a waiter that was observed blocked in Lock before the other caller invoked Lock"},
		Real: []string{"lock.Lock/Unlock (queue, ready/done channels, TTL watchdog)", "panichandler.SafeGo"},
		Stub: []string{"Go scheduler (simrt: one goroutine at a time, seeded)", "clock (synctest fake time)", "sync/atomic primitives (shims)", "gateway Lock/Unlock wrapper exercised in C26"},
	})
	register(&Property{
		ID:    "C28",
		Level: "exploration",
		Rule: "cases = lock/unlock/TTL-expiry histories over K distinct keys and over 8K distinct keys (K = 2..8) with 1..2 callers per key (plain callers, callers whose context is already cancelled or expires while queued, duplicate unlocks, unlocks of keys nobody locked), run to quiescence (every TTL elapsed, every caller returned); " +
			"the objects reachable from the lock service are counted by a reflective walk after quiescence; non-trivial = all locks released or expired and at least 8 distinct keys used; distinct = hash of (K, scripts, schedule trace)",
		Gen:         genC28,
		Run:         runC28,
		Sim:         true,
		Assumptions: []string{"retained state is measured as the number of distinct heap objects reachable from the lock service value"},
		Real:        []string{"lock.Lock/Unlock", "Gateway.Lock/Unlock (a third of the cases; zeus/hydra wiring as in the server)"},
		Stub:        []string{"Go scheduler (simrt)", "clock (synctest)"},
	})
}

// op fields: A = [arriveMs, key, ttlMs, ctxTimeoutMs(0=none), holdMs, unlockKind]
// unlockKind: 0 own id, 1 never (TTL releases), 2 stale (unlock twice), 3 foreign (id from the other key / previous holder), 4 random id then own
func genC14(seed uint64, tier string) Case {
	r := newRng(seed, "c14")
	c := Case{Prop: "C14", Seed: seed, Cfg: map[string]int64{}}
	n := 2 + r.intn(5)
	nkeys := 1 + r.intn(2)
	instants := []int64{0, 0, 1, 5, 20, 50}
	for i := 0; i < n; i++ {
		ttl := int64(1 + r.intn(400))
		hold := int64(r.intn(120))
		if r.chance(1, 2) {
			// leave exactly when (or a hair before/after) another caller arrives: the differences of the arrival instants
			hold = []int64{0, 1, 4, 5, 15, 19, 20, 30, 45, 49, 50}[r.intn(11)]
		}
		if r.chance(1, 4) {
			hold = ttl + int64(r.intn(50)) // holds past its TTL
		}
		ctxTo := int64(0)
		if r.chance(1, 4) {
			ctxTo = int64(1 + r.intn(200))
		}
		c.Ops = append(c.Ops, Op{C: i, K: "caller", A: []int64{instants[r.intn(len(instants))], int64(r.intn(nkeys)), ttl, ctxTo, hold, int64(r.pick(5, 2, 2, 2, 1))}})
	}
	if r.chance(1, 3) {
		// through the gateway: Gateway.Lock raises TTLs up to 1000 ms to 1000 ms and waits without honouring the
		// caller's cancellation; Gateway.Unlock answers an unknown id with an error
		c.Cfg["gw"] = 1
		for i := range c.Ops {
			a := c.Ops[i].A
			if r.chance(1, 2) {
				a[2] = int64(1001 + r.intn(600))
			}
			eff := a[2]
			if eff <= 1000 {
				eff = 1000
			}
			a[4] = int64(r.intn(300))
			if r.chance(1, 4) {
				a[4] = eff + int64(r.intn(50))
			}
			a[0] = []int64{0, 0, 1, 5, 200, 900}[r.intn(6)]
		}
	}
	c.Sched = genSched(r)
	return c
}

type lockEv struct {
	seq    int64
	at     time.Duration
	caller int
	kind   string // invoke, queued, granted, failed, unlock_call, unlock_ret, foreign_call, foreign_ret
	err    bool
	key    int64
}

func runC14(t *testing.T, c Case) (res Result) {
	var evs []lockEv
	var violationOut *Result
	gwMode := c.cfg("gw", 0) == 1
	realCtx := make([]int64, len(c.Ops))
	realTTL := make([]int64, len(c.Ops))
	for i := range c.Ops {
		realCtx[i] = c.Ops[i].A[3]
		realTTL[i] = c.Ops[i].A[2]
	}
	if gwMode {
		// the model sees what the gateway makes of the request: TTL floor, no cancellation
		c = c.clone()
		for i := range c.Ops {
			c.Ops[i].A[3] = 0
			if c.Ops[i].A[2] <= 1000 {
				c.Ops[i].A[2] = 1000
			}
		}
	}
	out := runSim(t, c.Sched, func() {
		l := lock.New()
		lockFn := func(ctx context.Context, k string, ttl time.Duration) (string, error) { return l.Lock(ctx, k, ttl) }
		unlockFn := func(k, id string) error { return l.Unlock(k, id) }
		if gwMode {
			srv := startServer(simdisk.New(), 3600, 1)
			lockFn = func(ctx context.Context, k string, ttl time.Duration) (string, error) {
				resp, err := srv.gw.Lock(ctx, &hydrapb.LockRequest{Key: k, TTL: ttl.Milliseconds()})
				if err != nil {
					return "", err
				}
				if resp == nil {
					return "", fmt.Errorf("nil reply")
				}
				return resp.LockID, nil
			}
			unlockFn = func(k, id string) error {
				_, err := srv.gw.Unlock(context.Background(), &hydrapb.UnlockRequest{Key: k, LockID: id})
				return err
			}
		}
		start := time.Now()
		rec := func(caller int, kind string, key int64, err bool) {
			seq := simrt.EventSeq()
			evs = append(evs, lockEv{seq: seq, at: time.Since(start), caller: caller, kind: kind, key: key, err: err})
		}
		ids := make([]string, len(c.Ops))       // lock id obtained by caller i
		lastID := map[int64]string{}            // most recent id granted per key (for foreign/stale use)
		gids := make([]int32, len(c.Ops))
		lo := simrt.NextG()
		maxEnd := time.Duration(0)
		for i, op := range c.Ops {
			i, op := i, op
			arrive, key, ttl, ctxTo, hold, uk := op.A[0], op.A[1], op.A[2], op.A[3], op.A[4], op.A[5]
			if e := time.Duration(arrive+ttl+hold+ctxTo+10) * time.Millisecond; e > maxEnd {
				maxEnd = e
			}
			gids[i] = simrt.GoID(func() {
				simrt.Sleep(time.Duration(arrive) * time.Millisecond)
				ctx := context.Background()
				if realCtx[i] > 0 {
					var cancel context.CancelFunc
					ctx, cancel = simTimeoutCtx(ctx, time.Duration(realCtx[i])*time.Millisecond)
					defer cancel()
				}
				k := fmt.Sprintf("key-%d", key)
				rec(i, "invoke", key, false)
				id, err := lockFn(ctx, k, time.Duration(realTTL[i])*time.Millisecond)
				if err != nil {
					rec(i, "failed", key, true)
					return
				}
				ids[i] = id
				prev := lastID[key]
				other := lastID[1-key]
				lastID[key] = id
				rec(i, "granted", key, false)
				simrt.Sleep(time.Duration(hold) * time.Millisecond)
				switch uk {
				case 1:
					return
				case 3:
					// a foreign id: the id of a holder of the other key, or a previous holder of this key
					f := other
					if f == "" {
						f = prev
					}
					if f != "" && f != id {
						rec(i, "foreign_call", key, false)
						e := unlockFn(k, f)
						rec(i, "foreign_ret", key, e != nil)
					}
				case 4:
					rec(i, "foreign_call", key, false)
					e := unlockFn(k, "no-such-lock-id")
					rec(i, "foreign_ret", key, e != nil)
				}
				rec(i, "unlock_call", key, false)
				e := unlockFn(k, id)
				rec(i, "unlock_ret", key, e != nil)
				if uk == 2 {
					rec(i, "stale_call", key, false)
					e := unlockFn(k, id)
					rec(i, "stale_ret", key, e != nil)
				}
			})
		}
		hi := simrt.NextG()
		// monitor: at every simulated millisecond note who is blocked inside Lock
		queued := map[int]bool{}
		total := time.Duration(0)
		for _, op := range c.Ops {
			total += time.Duration(op.A[2]+op.A[4]) * time.Millisecond
		}
		deadline := maxEnd + total + time.Second
		for time.Since(start) < deadline {
			all := true
			for i := range c.Ops {
				if !simrt.GDone(gids[i]) {
					all = false
					if !queued[i] && simrt.RawBlocked(gids[i]) && invoked(evs, i) && !returned(evs, i) {
						queued[i] = true
						rec(i, "queued", c.Ops[i].A[1], false)
					}
				}
			}
			if all || simrt.Aborted() {
				break
			}
			simrt.Sleep(time.Millisecond)
		}
		_, _ = lo, hi
		var stuck []int
		for i := range c.Ops {
			if !simrt.GDone(gids[i]) {
				stuck = append(stuck, i)
			}
		}
		if len(stuck) > 0 && !simrt.Aborted() {
			v := violation("waiter_left_blocked", "callers %v are still blocked %v after every holder's TTL has elapsed", stuck, time.Since(start))
			violationOut = &v
		}
	})
	res.SimNanos = out.stats.SimNanos
	res.TraceHash = out.stats.Hash
	res.PreemptSteps = out.stats.PreemptSteps
	res.count("sched_steps", out.stats.Steps)
	res.count("preemptions", out.stats.Preemptions)
	res.count("context_switches", out.stats.Switches)
	if out.rootPanic != "" {
		return violation("panic", "panic in run: %s", out.rootPanic)
	}
	if !benignBubbleEnd(out.bubblePanic) {
		return Result{Verdict: "inconclusive", Detail: "bubble: " + out.bubblePanic}
	}
	if out.aborted || out.stats.OverBudget {
		return Result{Verdict: "inconclusive", Detail: "scheduler budget exhausted"}
	}
	if violationOut != nil {
		return *violationOut
	}
	if os.Getenv("VERIF_DEBUG") != "" {
		for _, e := range evs {
			fmt.Printf("  ev seq=%d at=%v caller=%d %s key=%d err=%v\n", e.seq, e.at, e.caller, e.kind, e.key, e.err)
		}
		fmt.Printf("  stats: %+v\n", out.stats)
	}
	if v := checkLockTrace(c, evs, &res); v != nil {
		v.Counters = res.Counters
		v.TraceHash, v.PreemptSteps, v.SimNanos = res.TraceHash, res.PreemptSteps, res.SimNanos
		return *v
	}
	res.Verdict = "ok"
	res.Fingerprint = fnv(out.stats.Hash, len(c.Ops))
	return res
}

func invoked(evs []lockEv, i int) bool {
	for _, e := range evs {
		if e.caller == i && e.kind == "invoke" {
			return true
		}
	}
	return false
}

func returned(evs []lockEv, i int) bool {
	for _, e := range evs {
		if e.caller == i && (e.kind == "granted" || e.kind == "failed") {
			return true
		}
	}
	return false
}

func checkLockTrace(c Case, evs []lockEv, res *Result) *Result {
	type hold struct {
		caller           int
		key              int64
		gSeq, uSeq       int64 // observed hold interval in event sequence numbers (uSeq: unlock invoked; max if never)
		gAt              time.Duration
		ttl              time.Duration
		invokeSeq, qSeq  int64
		granted, failed  bool
	}
	hs := make([]hold, len(c.Ops))
	for i := range hs {
		hs[i] = hold{caller: i, key: c.Ops[i].A[1], uSeq: 1 << 62, ttl: time.Duration(c.Ops[i].A[2]) * time.Millisecond}
	}
	for _, e := range evs {
		h := &hs[e.caller]
		switch e.kind {
		case "invoke":
			h.invokeSeq = e.seq
		case "queued":
			h.qSeq = e.seq
			res.Nontrivial = true
			res.count("callers_queued_behind_a_holder", 1)
		case "granted":
			h.granted, h.gSeq, h.gAt = true, e.seq, e.at
		case "failed":
			h.failed = true
			res.count("lock_calls_cancelled", 1)
		case "unlock_call":
			h.uSeq = e.seq
		case "unlock_ret":
			// own unlock: error only if the TTL had already expired
			if !e.err && e.at > h.gAt+h.ttl {
				v := violation("unlock_after_ttl_succeeded", "caller %d: Unlock with its own id returned success at %v although its TTL %v (granted at %v) had expired: the id was stale", e.caller, e.at, h.ttl, h.gAt)
				return &v
			}
			if e.err && e.at < h.gAt+h.ttl {
				v := violation("unlock_by_holder_failed", "caller %d: Unlock with its own valid id failed at %v (granted %v, ttl %v)", e.caller, e.at, h.gAt, h.ttl)
				return &v
			}
		case "stale_ret":
			res.count("stale_unlocks", 1)
			if !e.err {
				v := violation("stale_unlock_succeeded", "caller %d: a second Unlock with an already released id returned success", e.caller)
				return &v
			}
		case "foreign_ret":
			res.count("foreign_unlocks", 1)
		}
	}
	// mutual exclusion on observed intervals
	for i := range hs {
		for j := range hs {
			a, b := &hs[i], &hs[j]
			if i == j || !a.granted || !b.granted || a.key != b.key {
				continue
			}
			// b granted strictly inside a's observed hold, before a's TTL expired
			if a.gSeq < b.gSeq && b.gSeq < a.uSeq && b.gAt < a.gAt+a.ttl {
				// a foreign unlock by a itself cannot have released its own lock; a foreign unlock by others cannot release a's either
				v := violation("two_holders", "key %d: caller %d was granted the lock at %v (event %d) while caller %d, granted at %v with TTL %v, had not unlocked yet (unlock call at event %d)", a.key, b.caller, b.gAt, b.gSeq, a.caller, a.gAt, a.ttl, a.uSeq)
				return &v
			}
		}
	}
	// FIFO: a was observed queued before b even invoked Lock, both on the same key, both granted => a first
	for i := range hs {
		for j := range hs {
			a, b := &hs[i], &hs[j]
			if i == j || a.key != b.key || a.qSeq == 0 || !a.granted || !b.granted {
				continue
			}
			if a.qSeq < b.invokeSeq && b.gSeq < a.gSeq {
				v := violation("fifo_order_violated", "key %d: caller %d was already waiting (event %d) when caller %d invoked Lock (event %d), yet caller %d was granted first (events %d < %d)", a.key, a.caller, a.qSeq, b.caller, b.invokeSeq, b.caller, b.gSeq, a.gSeq)
				return &v
			}
			res.count("fifo_pairs_checked", 1)
		}
	}
	// a waiter that did not cancel must eventually be granted (liveness is checked by the join in the run)
	for i := range hs {
		h := &hs[i]
		if !h.granted && !h.failed && h.invokeSeq != 0 {
			v := violation("waiter_left_blocked", "caller %d invoked Lock and neither acquired nor failed", h.caller)
			return &v
		}
		if h.failed && c.Ops[i].A[3] == 0 {
			v := violation("lock_failed_without_cancellation", "caller %d: Lock returned an error although its context was never cancelled", h.caller)
			return &v
		}
	}
	return nil
}

// ---------------------------------------------------------------------------
// C28

func genC28(seed uint64, tier string) Case {
	r := newRng(seed, "c28")
	c := Case{Prop: "C28", Seed: seed, Cfg: map[string]int64{}}
	c.Cfg["k"] = int64(2 + r.intn(7))
	c.Cfg["per_key"] = int64(1 + r.intn(2))
	c.Cfg["ttl"] = int64(1 + r.intn(50))
	c.Cfg["unlock_pct"] = int64(r.intn(101))
	c.Sched = genSched(r)
	return c
}

// reachable counts the distinct heap objects reachable from v.
func reachable(v reflect.Value, seen map[uintptr]bool, depth int) {
	if depth > 64 || !v.IsValid() {
		return
	}
	switch v.Kind() {
	case reflect.Pointer:
		if v.IsNil() {
			return
		}
		p := v.Pointer()
		if seen[p] {
			return
		}
		seen[p] = true
		reachable(v.Elem(), seen, depth+1)
	case reflect.Interface:
		if v.IsNil() {
			return
		}
		reachable(v.Elem(), seen, depth+1)
	case reflect.Struct:
		for i := 0; i < v.NumField(); i++ {
			f := v.Field(i)
			if !f.CanInterface() && f.CanAddr() {
				f = reflect.NewAt(f.Type(), unsafe.Pointer(f.UnsafeAddr())).Elem()
			}
			reachable(f, seen, depth+1)
		}
	case reflect.Slice:
		if v.IsNil() {
			return
		}
		p := v.Pointer()
		if p != 0 && !seen[p] {
			seen[p] = true
		}
		for i := 0; i < v.Len(); i++ {
			reachable(v.Index(i), seen, depth+1)
		}
	case reflect.Array:
		for i := 0; i < v.Len(); i++ {
			reachable(v.Index(i), seen, depth+1)
		}
	case reflect.Map:
		if v.IsNil() {
			return
		}
		p := v.Pointer()
		if seen[p] {
			return
		}
		seen[p] = true
		it := v.MapRange()
		for it.Next() {
			reachable(it.Key(), seen, depth+1)
			reachable(it.Value(), seen, depth+1)
		}
	case reflect.Chan:
		if !v.IsNil() {
			seen[v.Pointer()] = true
		}
	}
}

func countReachable(x any) int {
	seen := map[uintptr]bool{}
	v := reflect.ValueOf(x)
	// make struct fields addressable
	if v.Kind() == reflect.Pointer {
		reachable(v, seen, 0)
	} else {
		p := reflect.New(v.Type())
		p.Elem().Set(v)
		reachable(p, seen, 0)
	}
	return len(seen)
}

func runC28(t *testing.T, c Case) (res Result) {
	k := int(c.cfg("k", 4))
	per := int(c.cfg("per_key", 1))
	ttl := time.Duration(c.cfg("ttl", 10)) * time.Millisecond
	unlockPct := int(c.cfg("unlock_pct", 50))
	sizes := [2]int{}
	stuck := false
	out := runSim(t, c.Sched, func() {
		for round, nkeys := range []int{k, 8 * k} {
			l := lock.New()
			var ids []int32
			for key := 0; key < nkeys; key++ {
				for p := 0; p < per; p++ {
					key, p := key, p
					// how this caller behaves: plain, arriving with a context that is already cancelled, with a context
					// that expires while it may be queued, or unlocking twice and unlocking a key nobody ever locked
					variant := int(simrt.Mix(c.Seed, uint64(key*131+p*7+round)) % 7)
					if c.cfg("plain", 0) == 1 {
						variant = 0
					}
					id := simrt.GoID(func() {
						ctx := context.Background()
						switch variant {
						case 3:
							cctx, cancel := context.WithCancel(ctx)
							cancel()
							ctx = cctx
						case 4:
							cctx, cancel := simTimeoutCtx(ctx, time.Millisecond)
							defer cancel()
							ctx = cctx
						}
						id, err := l.Lock(ctx, fmt.Sprintf("k%d", key), ttl)
						if err != nil {
							return
						}
						simrt.Sleep(time.Duration((key+p)%5) * time.Millisecond)
						if (key*7+p*13)%100 < unlockPct || variant == 5 {
							l.Unlock(fmt.Sprintf("k%d", key), id)
						}
						if variant == 5 {
							l.Unlock(fmt.Sprintf("k%d", key), id)
							l.Unlock(fmt.Sprintf("never-locked-%d", key), id)
						}
					})
					ids = append(ids, id)
				}
			}
			if !simrt.JoinIDs(ids, time.Duration(per+2)*ttl+10*time.Second) {
				stuck = true
				return
			}
			simrt.Sleep(ttl + 10*time.Millisecond) // watchdogs of released locks are gone, TTLs elapsed
			sizes[round] = countReachable(l)
		}
	})
	res.SimNanos = out.stats.SimNanos
	res.TraceHash = out.stats.Hash
	res.PreemptSteps = out.stats.PreemptSteps
	if out.rootPanic != "" {
		return violation("panic", "panic in run: %s", out.rootPanic)
	}
	if !benignBubbleEnd(out.bubblePanic) || out.aborted || stuck {
		return Result{Verdict: "inconclusive", Detail: "run did not reach quiescence: " + out.bubblePanic}
	}
	res.count("keys_small", int64(k))
	res.count("keys_large", int64(8*k))
	res.Nontrivial = 8*k >= 8
	res.Fingerprint = fnv(out.stats.Hash, k, per)
	// all locks are released or expired in both rounds: retained state must not scale with the keys ever used
	if sizes[1] > sizes[0]+k {
		return Result{Verdict: "violation", Class: "per_key_state_retained_after_release",
			Detail: fmt.Sprintf("after every lock was released or expired the lock service still reaches %d objects for %d keys ever used vs %d objects for %d keys: state grows with the number of distinct keys ever locked", sizes[1], 8*k, sizes[0], k),
			TraceHash: res.TraceHash, PreemptSteps: res.PreemptSteps, Counters: res.Counters}
	}
	res.Verdict = "ok"
	_ = sort.Ints
	return res
}
