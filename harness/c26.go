package zzharness

import (
	"io"
	"context"
	"fmt"
	"reflect"
	"sort"
	"strings"
	"testing"
	"time"

	hydrapb "github.com/hydraide/hydraide/sdk/go/hydraidego/v3/hydraidepbgo"
	"github.com/hydraide/hydraide/app/zzsim/simdisk"
	"github.com/hydraide/hydraide/app/zzsim/simrt"
	"github.com/vmihailenco/msgpack/v5"
	"google.golang.org/grpc/metadata"
	"google.golang.org/protobuf/proto"
	"google.golang.org/protobuf/reflect/protoreflect"
)

// C26 — malformed requests fail cleanly without side effects.
//
// Requests for every RPC of the gateway are generated structurally from the
// protobuf descriptors (each field drawn from valid, boundary and malformed
// pools: empty and short swamp names, 70 kB and empty keys, nil/empty lists,
// nil sub-messages, out-of-range enums, extreme numbers, body-field paths in valid and
// broken syntax aimed at stored bodies with scalar, vector, slice-of-maps and map fields) and interleaved with
// valid traffic. The handlers are found by reflection, so a new RPC is covered
// automatically.

func init() {
	register(&Property{
		ID:    "C26",
		Level: "exploration",
		Rule: "cases = 5..30 requests, each for a seeded RPC (all unary and server-streaming handlers of the gateway, found by reflection) with every field filled from seeded pools of valid / boundary / malformed values through protobuf reflection, interleaved with valid Sets on a persistent swamp; " +
			"oracle: no escaped panic, no handler panic recovered into an empty reply, every request returns within 120 simulated seconds, afterwards the valid records are intact after idle eviction and restart, and graceful stop returns; " +
			"non-trivial = at least one malformed request reached a handler body (answered with something other than InvalidArgument for an empty swamp name); distinct = hash of (RPC, mutated fields, outcome class) sequence",
		Gen: genC26,
		Run: runC26,
		Sim: true,
		MemLimitGB: 12,
		Assumptions: []string{"handlers are called directly (no gRPC transport): what arrives is what a client can put on the wire; an empty repeated field arrives as nil, as on the wire"},
		Real:        gwReal,
		Stub:        gwStub,
	})
}

func genC26(seed uint64, tier string) Case {
	r := newRng(seed, "c26")
	c := Case{Prop: "C26", Seed: seed, Cfg: map[string]int64{}}
	c.Cfg["write_interval"] = int64(r.intn(2))
	n := 5 + r.intn(26)
	for i := 0; i < n; i++ {
		// A = [method selector, field-fill seed, malformedness 0..3]
		c.Ops = append(c.Ops, Op{K: "rpc", A: []int64{int64(r.intn(1000)), int64(r.next() >> 1), int64(r.pick(2, 3, 3, 2))}})
		if r.chance(1, 4) {
			c.Ops = append(c.Ops, Op{K: "valid", A: []int64{int64(r.intn(4))}})
		}
	}
	c.Sched = &Sched{Seed: r.next()}
	return c
}

var pathPool = []string{"n", "s", "vec", "arr", "arr[*].v", "vec[*]", "arr.#len", "m.x", "missing", "words"}

var strPool = []string{"verif/per/keep", "verif/per/other", "verif/mem/x", "", "a", "a/b", "a/b/c/d", "//", "*/*/*", "verif/per/", "verif//keep", "k0", "k1", "\x00", " "}

type fakeSrvStream[T any] struct {
	ctx context.Context
	n   int
}

func (f *fakeSrvStream[T]) SetHeader(metadata.MD) error  { return nil }
func (f *fakeSrvStream[T]) SendHeader(metadata.MD) error { return nil }
func (f *fakeSrvStream[T]) SetTrailer(metadata.MD)       {}
func (f *fakeSrvStream[T]) Context() context.Context     { return f.ctx }
func (f *fakeSrvStream[T]) RecvMsg(m any) error          { return nil }
func (f *fakeSrvStream[T]) SendMsg(m any) error          { f.n++; return nil }
func (f *fakeSrvStream[T]) Send(m *T) error              { f.n++; return nil }

// fillMessage fills m from the pools. level: 0 = mostly valid, 3 = mostly malformed.
func fillMessage(m protoreflect.Message, r *rng, level int64, depth int, mutated *[]string) {
	fds := m.Descriptor().Fields()
	for i := 0; i < fds.Len(); i++ {
		fd := fds.Get(i)
		name := string(fd.Name())
		if fd.IsMap() {
			continue
		}
		if fd.HasPresence() && fd.Kind() != protoreflect.MessageKind && r.chance(1, 2) {
			continue // optional scalar left unset
		}
		one := func() (protoreflect.Value, bool) {
			switch fd.Kind() {
			case protoreflect.StringKind:
				var s string
				switch {
				case strings.Contains(name, "SwampName") || strings.Contains(name, "SwampPattern"):
					if int64(r.intn(4)) < level {
						s = strPool[r.intn(len(strPool))]
						*mutated = append(*mutated, name+"="+shortKey(s))
					} else {
						s = strPool[r.intn(3)]
					}
				case name == "Key" || name == "Keys" || strings.Contains(name, "Key"):
					switch {
					case int64(r.intn(6)) < level && r.chance(1, 3):
						// around the limit of the storage format's 16-bit key length: 65535 is the longest legal key
						n := []int{70000, 65536, 65535, 65537, 65536}[r.intn(5)]
						s = strings.Repeat("K", n)
						*mutated = append(*mutated, fmt.Sprintf("%s=%dB", name, n))
					case int64(r.intn(6)) < level:
						s = ""
						*mutated = append(*mutated, name+"=empty")
					default:
						s = fmt.Sprintf("k%d", r.intn(3))
					}
				case strings.Contains(name, "Path"):
					// body-field paths of filters, patch operations and nested-slice members: fields the stored bodies have
					// (scalar, numeric array, slice of maps, map), path syntax variants, and broken syntax
					s = pathPool[r.intn(len(pathPool))]
					if int64(r.intn(6)) < level {
						s = []string{"", ".", "..", "[*]", "vec[*][*]", "arr[*]", "#len", "arr.#len.x", "vec.0", "n.n", "[", "arr[", strings.Repeat("a.", 300) + "a"}[r.intn(13)]
						*mutated = append(*mutated, name+"="+shortKey(s))
					}
				default:
					s = strPool[r.intn(len(strPool))]
				}
				return protoreflect.ValueOfString(s), true
			case protoreflect.BytesKind:
				switch r.intn(4) {
				case 0:
					return protoreflect.ValueOfBytes(nil), true
				case 1:
					return protoreflect.ValueOfBytes([]byte{0xC7, 0x00, 0x80}), true
				case 2:
					return protoreflect.ValueOfBytes([]byte{0x81, 0xa1, 'n', 0x01}), true
				}
				if r.chance(1, 4) {
					return protoreflect.ValueOfBytes([][]byte{{0x00}, {0xC7}, {0xC7, 0x00}, {0xC7, 0x00, 0xC1}}[r.intn(4)]), true
				}
				if r.chance(1, 4) {
					// msgpack headers that announce far more than the few bytes that follow: map32 / array32 / str32 / bin32
					// with 2^32-1 elements, map16 / array16 with 65535, bare and behind the body marker
					h := [][]byte{{0xdf, 0xff, 0xff, 0xff, 0xff}, {0xdd, 0xff, 0xff, 0xff, 0xff}, {0xdb, 0xff, 0xff, 0xff, 0xff}, {0xc6, 0xff, 0xff, 0xff, 0xff}, {0xde, 0xff, 0xff}, {0xdc, 0xff, 0xff},
						{0x81, 0xa1, 'n', 0xdd, 0xff, 0xff, 0xff, 0xff}, {0x81, 0xa1, 'n', 0xdf, 0x7f, 0xff, 0xff, 0xff}}[r.intn(8)]
					if r.chance(1, 2) {
						h = append([]byte{0xC7, 0x00}, h...)
					}
					*mutated = append(*mutated, fmt.Sprintf("%s=msgpack_header_%x", name, h))
					return protoreflect.ValueOfBytes(h), true
				}
				return protoreflect.ValueOfBytes(genPayload(int64(r.intn(40)), int64(r.intn(99)))), true
			case protoreflect.BoolKind:
				return protoreflect.ValueOfBool(r.chance(1, 2)), true
			case protoreflect.EnumKind:
				n := fd.Enum().Values().Len()
				v := protoreflect.EnumNumber(r.intn(n))
				if int64(r.intn(8)) < level {
					v = protoreflect.EnumNumber(97 + r.intn(3))
					*mutated = append(*mutated, name+"=enum_out_of_range")
				}
				return protoreflect.ValueOfEnum(v), true
			case protoreflect.Int32Kind, protoreflect.Sint32Kind, protoreflect.Sfixed32Kind:
				return protoreflect.ValueOfInt32([]int32{0, 1, -1, 5, 2147483647, -2147483648}[r.intn(6)]), true
			case protoreflect.Int64Kind, protoreflect.Sint64Kind, protoreflect.Sfixed64Kind:
				return protoreflect.ValueOfInt64([]int64{0, 1, -1, 3, 1 << 62, -(1 << 62)}[r.intn(6)]), true
			case protoreflect.Uint32Kind, protoreflect.Fixed32Kind:
				return protoreflect.ValueOfUint32([]uint32{0, 1, 7, 4294967295}[r.intn(4)]), true
			case protoreflect.Uint64Kind, protoreflect.Fixed64Kind:
				if name == "IslandID" {
					return protoreflect.ValueOfUint64([]uint64{1, 1, 1, 0, 999999}[r.intn(5)]), true
				}
				return protoreflect.ValueOfUint64([]uint64{0, 1, 7, 1 << 63}[r.intn(4)]), true
			case protoreflect.FloatKind:
				return protoreflect.ValueOfFloat32([]float32{0, 1.5, -1}[r.intn(3)]), true
			case protoreflect.DoubleKind:
				return protoreflect.ValueOfFloat64([]float64{0, 1.5, -1}[r.intn(3)]), true
			case protoreflect.MessageKind:
				if depth > 4 {
					return protoreflect.Value{}, false
				}
				if fd.Message().FullName() == "google.protobuf.Timestamp" {
					sub := m.NewField(fd).Message()
					secs := []int64{0, 1, -5, 946684800 + int64(r.intn(100)), 32503680000}[r.intn(5)]
					sub.Set(sub.Descriptor().Fields().ByName("seconds"), protoreflect.ValueOfInt64(secs))
					return protoreflect.ValueOfMessage(sub), true
				}
				if strings.HasSuffix(string(fd.Message().FullName()), ".Cap") && r.chance(1, 2) {
					// a well-formed cap (body-field filter, positive maximum): the cap-bearing code paths are only
					// reached with one, whatever else in the request is malformed
					p := "n"
					cp := &hydrapb.Cap{MaxMatching: int32(1 + r.intn(3)), Filter: &hydrapb.FilterGroup{Filters: []*hydrapb.TreasureFilter{{BytesFieldPath: &p, Operator: hydrapb.Relational_EQUAL, CompareValue: &hydrapb.TreasureFilter_Int64Val{Int64Val: 1}}}}}
					return protoreflect.ValueOfMessage(cp.ProtoReflect()), true
				}
				var sub protoreflect.Message
				if fd.IsList() {
					sub = m.NewField(fd).List().NewElement().Message()
				} else {
					sub = m.NewField(fd).Message()
				}
				fillMessage(sub, r, level, depth+1, mutated)
				return protoreflect.ValueOfMessage(sub), true
			}
			return protoreflect.Value{}, false
		}
		if fd.IsList() {
			n := []int{0, 1, 1, 2, 3}[r.intn(5)]
			if n == 0 {
				if fd.Kind() == protoreflect.MessageKind || fd.Kind() == protoreflect.StringKind {
					*mutated = append(*mutated, name+"=empty_list")
				}
				continue
			}
			l := m.Mutable(fd).List()
			for k := 0; k < n; k++ {
				if v, ok := one(); ok {
					l.Append(v)
				}
			}
			continue
		}
		if fd.Kind() == protoreflect.MessageKind && int64(r.intn(5)) < level {
			*mutated = append(*mutated, name+"=nil")
			continue
		}
		if v, ok := one(); ok {
			m.Set(fd, v)
		}
	}
}

type rpcMethod struct {
	name   string
	fn     reflect.Value
	req    reflect.Type
	stream reflect.Type // nil for unary
	bidi   bool
}

func gatewayMethods(gw any) []rpcMethod {
	var out []rpcMethod
	v := reflect.ValueOf(gw)
	t := v.Type()
	ctxT := reflect.TypeOf((*context.Context)(nil)).Elem()
	msgT := reflect.TypeOf((*proto.Message)(nil)).Elem()
	for i := 0; i < t.NumMethod(); i++ {
		m := t.Method(i)
		ft := m.Type // receiver is in(0)
		switch {
		case ft.NumIn() == 3 && ft.In(1).Implements(ctxT) && ft.In(2).Implements(msgT) && ft.NumOut() == 2:
			out = append(out, rpcMethod{name: m.Name, fn: v.Method(i), req: ft.In(2)})
		case ft.NumIn() == 3 && ft.In(1).Implements(msgT) && ft.In(2).Kind() == reflect.Interface && ft.NumOut() == 1:
			out = append(out, rpcMethod{name: m.Name, fn: v.Method(i), req: ft.In(1), stream: ft.In(2)})
		case ft.NumIn() == 2 && ft.In(1).Kind() == reflect.Interface && ft.NumOut() == 1 && strings.Contains(ft.In(1).String(), "StreamingServer"):
			// client- or bidi-streaming handler: the requests arrive through the stream
			out = append(out, rpcMethod{name: m.Name, fn: v.Method(i), stream: ft.In(1), bidi: true})
		}
	}
	sort.Slice(out, func(i, j int) bool { return out[i].name < out[j].name })
	return out
}

// fakeBidiStream feeds generated requests to a client-/bidi-streaming handler and ends with io.EOF.
type fakeBidiStream[Req any, Resp any] struct {
	ctx  context.Context
	reqs []*Req
	n    int
}

func (f *fakeBidiStream[Req, Resp]) SetHeader(metadata.MD) error  { return nil }
func (f *fakeBidiStream[Req, Resp]) SendHeader(metadata.MD) error { return nil }
func (f *fakeBidiStream[Req, Resp]) SetTrailer(metadata.MD)       {}
func (f *fakeBidiStream[Req, Resp]) Context() context.Context     { return f.ctx }
func (f *fakeBidiStream[Req, Resp]) RecvMsg(m any) error          { return io.EOF }
func (f *fakeBidiStream[Req, Resp]) SendMsg(m any) error          { f.n++; return nil }
func (f *fakeBidiStream[Req, Resp]) Send(m *Resp) error           { f.n++; return nil }
func (f *fakeBidiStream[Req, Resp]) Recv() (*Req, error) {
	if len(f.reqs) == 0 {
		return nil, io.EOF
	}
	r := f.reqs[0]
	f.reqs = f.reqs[1:]
	return r, nil
}

func newFakeStreamFor(t reflect.Type, ctx context.Context) (reflect.Value, bool) {
	cands := []any{
		&fakeSrvStream[hydrapb.SubscribeToEventsResponse]{ctx: ctx}, &fakeSrvStream[hydrapb.SubscribeToInfoResponse]{ctx: ctx},
		&fakeSrvStream[hydrapb.GetByIndexStreamResponse]{ctx: ctx}, &fakeSrvStream[hydrapb.GetByIndexStreamFromManyResponse]{ctx: ctx},
		&fakeSrvStream[hydrapb.GetStreamResponse]{ctx: ctx}, &fakeSrvStream[hydrapb.TelemetryEvent]{ctx: ctx},
	}
	for _, c := range cands {
		if reflect.TypeOf(c).Implements(t) {
			return reflect.ValueOf(c), true
		}
	}
	return reflect.Value{}, false
}

func runC26(t *testing.T, c Case) (res Result) {
	wi := c.cfg("write_interval", 1)
	var v *Result
	var sig []string
	reached := 0
	out := runSim(t, c.Sched, func() {
		disk := simdisk.New()
		srv := startServer(disk, 2, wi)
		cl := &gwClient{srv: srv, island: 1, timeout: 120 * time.Second}
		cl.register("verif/per/*", false, 2, wi)
		cl.register("verif/mem/*", true, 3600, 0)
		keep := mswamp{}
		valid := func(i int64) *Result {
			key := fmt.Sprintf("keep%d", i)
			val := genValue("string", 1+i)
			val.S = fmt.Sprintf("kept-%d", i)
			_, err := cl.set("verif/per/protected", []*hydrapb.KeyValuePair{toKV(key, val)}, true, true)
			if err != nil {
				r := violation("valid_request_fails_after_malformed_traffic", "a valid Set on verif/per/protected failed: %v", err)
				return &r
			}
			keep[key] = val
			return nil
		}
		if v = valid(0); v != nil {
			return
		}
		// records with legal but awkward values in the swamps the generated requests address: byte values shorter
		// than the 2-byte msgpack marker, the bare marker, and a msgpack body
		for j, b := range [][]byte{{0x00}, {0xC7}, {0xC7, 0x00}, {0xC7, 0x00, 0x81, 0xa1, 'n', 0x01}, {0xC7, 0x00, 0xdf, 0xff, 0xff, 0xff, 0xff}, {0xC7, 0x00, 0x81, 0xa1, 'n', 0xdd, 0xff, 0xff, 0xff, 0xff}} {
			for _, sw := range []string{"verif/per/keep", "verif/per/other"} {
				cl.set(sw, []*hydrapb.KeyValuePair{{Key: fmt.Sprintf("k%d", j), BytesVal: b}}, true, true)
			}
		}
		// and a body with a field of every shape the filters look at: scalar, numeric array (vector), slice of maps, map
		rich, _ := msgpack.Marshal(map[string]any{"n": int64(1), "s": "a b", "vec": []float64{1, 0, 0, 0}, "arr": []any{map[string]any{"v": int64(1)}, map[string]any{"v": "x"}}, "m": map[string]any{"x": int64(2), "lat": 47.5, "lng": 19.0}, "words": map[string]any{"a": []int64{0}, "b": []int64{1}}})
		for _, sw := range []string{"verif/per/keep", "verif/per/other", "verif/mem/x"} {
			cl.set(sw, []*hydrapb.KeyValuePair{{Key: "k9", BytesVal: append([]byte{0xC7, 0x00}, rich...)}}, true, true)
		}
		methods := gatewayMethods(srv.gw)
		for i, op := range c.Ops {
			if cl.hung != "" || simrt.Aborted() {
				break
			}
			if op.K == "valid" {
				if v = valid(op.A[0]); v != nil {
					return
				}
				continue
			}
			m := methods[int(op.A[0])%len(methods)]
			r := newRng(uint64(op.A[1]), m.name)
			var req reflect.Value
			var mutated []string
			var bidi reflect.Value
			if m.bidi {
				if m.name != "DestroyBulk" {
					continue // no fake for this stream type yet
				}
				st := &fakeBidiStream[hydrapb.DestroyBulkRequest, hydrapb.DestroyBulkResponse]{ctx: context.Background()}
				for j := 1 + r.intn(2); j > 0; j-- {
					q := &hydrapb.DestroyBulkRequest{}
					fillMessage(q.ProtoReflect(), r, op.A[2], 0, &mutated)
					st.reqs = append(st.reqs, q)
				}
				req = reflect.ValueOf(st.reqs[0])
				bidi = reflect.ValueOf(st)
			} else {
				req = reflect.New(m.req.Elem())
				fillMessage(req.Interface().(proto.Message).ProtoReflect(), r, op.A[2], 0, &mutated)
			}
			errsBefore := srv.logs.errors
			var rets []reflect.Value
			desc := fmt.Sprintf("%s %v", m.name, mutated)
			ok := cl.call(m.name, func() {
				if m.bidi {
					rets = m.fn.Call([]reflect.Value{bidi})
					return
				}
				if m.stream == nil {
					rets = m.fn.Call([]reflect.Value{reflect.ValueOf(ctxBg), req})
					return
				}
				ctx, cancel := context.WithCancel(context.Background())
				st, found := newFakeStreamFor(m.stream, ctx)
				if !found {
					cancel()
					return
				}
				// streaming handlers that wait for the client to go away get cancelled after 50 simulated ms
				id := simrt.GoID(func() { simrt.Sleep(50 * time.Millisecond); cancel() })
				rets = m.fn.Call([]reflect.Value{req, st})
				cancel()
				_ = id
			})
			if !ok {
				r := violation("request_never_returns_"+m.name, "op %d: %s had not returned after 120 simulated seconds; request: %s", i, desc, oneLine(fmt.Sprint(req.Interface()), 300))
				v = &r
				return
			}
			outcome := "ok"
			if len(rets) > 0 {
				if e, isErr := rets[len(rets)-1].Interface().(error); isErr && e != nil {
					outcome = "err"
					if !strings.Contains(e.Error(), "SwampName cannot be empty") && !strings.Contains(e.Error(), "SwampPattern cannot be empty") {
						reached++
					}
				} else {
					reached++
				}
			}
			if srv.logs.errors > errsBefore {
				if e := srv.logs.find("grpc gateway panic"); e != "" {
					what := "other"
					switch {
					case strings.Contains(e, "index out of range"):
						what = "index_out_of_range"
					case strings.Contains(e, "nil pointer"):
						what = "nil_pointer"
					case strings.Contains(e, "slice bounds"):
						what = "slice_bounds"
					}
					r := violation("handler_panic_"+m.name+"_"+what, "op %d: %s panicked and the panic was turned into an empty reply; mutated fields %v; %s", i, m.name, mutated, oneLine(e, 300))
					v = &r
					return
				}
			}
			sig = append(sig, m.name+":"+outcome)
		}
		if cl.hung != "" {
			return
		}
		// the valid records must be intact after eviction and after restart; the server must still shut down
		simrt.Sleep(6 * time.Second)
		got, err := cl.snapshot("verif/per/protected")
		if err != nil {
			r := violation("stored_data_unreadable_after_malformed_traffic", "GetAll(verif/per/protected) after idle eviction: %v", err)
			v = &r
			return
		}
		if cls, det := compareSwamp(got, keep); cls != "" {
			// other generated requests may legitimately have written to / deleted from the same swamp: only the kept keys are judged
			if cls != "record_resurrected" {
				r := violation("stored_data_changed_after_malformed_traffic_"+cls, "after idle eviction: %s", det)
				v = &r
				return
			}
		}
		if !srv.stop(5 * time.Minute) {
			r := violation("graceful_stop_never_returns_after_malformed_traffic", "StopHydra had not returned after 5 simulated minutes (system lock or vigil accounting unbalanced)")
			v = &r
			return
		}
		srv2 := startServer(disk, 3600, wi)
		cl2 := &gwClient{srv: srv2, island: 1, timeout: 120 * time.Second}
		cl2.register("verif/per/*", false, 3600, wi)
		got, err = cl2.snapshot("verif/per/protected")
		if err != nil {
			r := violation("stored_data_unreadable_after_malformed_traffic", "GetAll(verif/per/protected) after restart: %v", err)
			v = &r
			return
		}
		if cls, det := compareSwamp(got, keep); cls != "" && cls != "record_resurrected" {
			r := violation("stored_data_changed_after_malformed_traffic_"+cls, "after restart: %s", det)
			v = &r
			return
		}
		// the swamps the generated requests were aimed at must still load: a request that was accepted (or rejected)
		// must not leave a file behind that the engine cannot read any more - that would take every record of that
		// swamp with it, well-formed ones included
		for _, sw := range []string{"verif/per/keep", "verif/per/other"} {
			if ex, _ := cl2.isSwampExist(sw); ex {
				cl2.getAll(sw)
			}
			for _, sub := range []string{"cannot load index from swamp file", "cannot open swamp file for reading", "cannot decode treasure"} {
				if e := srv2.logs.find(sub); e != "" {
					r := violation("swamp_unloadable_after_malformed_traffic", "after restart %s does not load any more: %s", sw, oneLine(e, 300))
					v = &r
					return
				}
			}
		}
		if cl2.hung != "" {
			r := violation("request_never_returns", "%s after restart", cl2.hung)
			v = &r
			return
		}
		srv2.stop(5 * time.Minute)
	})
	res.SimNanos = out.stats.SimNanos
	res.TraceHash = fnv(out.stats.Hash)
	res.count("sched_steps", out.stats.Steps)
	res.count("requests_reaching_a_handler_body", int64(reached))
	if out.rootPanic != "" {
		return violation("harness_panic", "root: %s", out.rootPanic)
	}
	if out.escaped != "" {
		return violation("server_goroutine_panic", "a goroutine panicked outside the handlers' recover (the process would die): %s", oneLine(out.escaped, 500))
	}
	if v != nil {
		v.Counters, v.SimNanos, v.TraceHash = res.Counters, res.SimNanos, res.TraceHash
		return *v
	}
	if out.aborted || out.stats.OverBudget {
		return Result{Verdict: "inconclusive", Detail: "scheduler budget exhausted"}
	}
	res.Verdict = "ok"
	res.Nontrivial = reached > 0
	res.Fingerprint = fnv(sig)
	return res
}
