package zzharness

import (
	"fmt"
	"strings"

	"github.com/google/uuid"
	"testing"
	"testing/synctest"
	"time"

	"context"
	"sync"

	"github.com/hydraide/hydraide/app/core/filesystem"
	"github.com/hydraide/hydraide/app/core/hydra"
	"github.com/hydraide/hydraide/app/core/hydra/swamp"
	"github.com/hydraide/hydraide/app/name"
	"github.com/hydraide/hydraide/app/core/settings"
	"github.com/hydraide/hydraide/app/core/zeus"
	"github.com/hydraide/hydraide/app/server/gateway"
	"github.com/hydraide/hydraide/app/zzsim/simdisk"
	"github.com/hydraide/hydraide/app/zzsim/simrt"
	"github.com/hydraide/hydraide/app/zzsim/sos"
)

// simOutcome is what the bubble itself reports, besides the property verdict.
type simOutcome struct {
	stats       simrt.Stats
	bubblePanic string // synctest's end-of-bubble deadlock report or an escaped panic
	rootPanic   string
	escaped     string // a panic that escaped a goroutine of the system: the server process would have died
	aborted     bool
}

func schedConfig(s *Sched) simrt.Config {
	if s == nil {
		return simrt.Config{Seed: 1}
	}
	return simrt.Config{Seed: s.Seed, PreemptPPM: s.PreemptPPM, StallPPM: s.StallPPM, HoldMax: s.HoldMax, HotPPM: s.HotPPM, Explicit: s.Explicit, Steps: s.Steps}
}

// runSim runs body as the root goroutine of a simulated run inside a fresh
// synctest bubble.
func runSim(t *testing.T, s *Sched, body func()) (out simOutcome) {
	// The bubble runs in a helper goroutine: under the race detector the testing package fails a test that
	// reported a race and synctest.Test then calls t.FailNow (runtime.Goexit), which must not end the worker loop.
	done := make(chan struct{})
	go func() {
		defer close(done)
		runSimBubble(t, s, body, &out)
	}()
	<-done
	return out
}

func runSimBubble(t *testing.T, s *Sched, body func(), out *simOutcome) {
	defer func() {
		if r := recover(); r != nil {
			out.bubblePanic = fmt.Sprint(r)
			st := simrt.Abandon()
			if out.stats.Steps == 0 {
				out.stats = st
			}
		}
	}()
	synctest.Test(t, func(t *testing.T) {
		simrt.ProbeReset()
		// uuid.NewString is used for lock ids, subscriber ids and legacy chunk file names; its randomness is a
		// source of nondeterminism (file names decide directory order), so it is fed from the run's seed
		seed := uint64(1)
		if s != nil {
			seed = s.Seed
		}
		uuid.SetRand(&seededReader{x: seed | 1})
		simrt.Start(schedConfig(s))
		func() {
			defer func() {
				if r := recover(); r != nil {
					out.rootPanic = fmt.Sprint(r)
				}
			}()
			body()
		}()
		out.aborted = simrt.Aborted()
		out.stats = simrt.Stop()
		out.escaped = simrt.EscapedPanic()
	})
}

// benignBubbleEnd reports whether a bubble panic is just synctest noticing
// goroutines that are blocked forever after the run was stopped.
func benignBubbleEnd(p string) bool {
	return p == "" || strings.Contains(p, "deadlock: main bubble goroutine has exited")
}

// genSched draws a schedule for a run, swarm style.
func genSched(r *rng) *Sched {
	s := &Sched{Seed: r.next()}
	switch r.pick(2, 3, 3, 2, 1) {
	case 0:
		s.PreemptPPM = 0
	case 1:
		s.PreemptPPM = 5_000
	case 2:
		s.PreemptPPM = 30_000
	case 3:
		s.PreemptPPM = 150_000
	default:
		s.PreemptPPM = 500_000
	}
	// a third of the schedules use few but long preemptions: the preempted goroutine is held back for up to
	// HoldMax scheduler steps, so that whole requests of other clients run inside one small window
	if s.PreemptPPM > 0 && r.chance(1, 3) {
		s.HoldMax = []uint32{100, 1000, 10000}[r.intn(3)]
		if s.PreemptPPM > 30_000 {
			s.PreemptPPM = []uint32{1_000, 5_000, 30_000}[r.intn(3)]
		}
	}
	if s.PreemptPPM > 0 && r.chance(1, 2) {
		s.HotPPM = []uint32{100_000, 300_000, 600_000}[r.intn(3)]
	}
	return s
}

// ---------------------------------------------------------------------------
// in-process server

// summonProbe observes SummonSwamp as the gateway calls it (the gateway reaches the engine through
// ZeusInterface.GetHydra(), which this wraps). It records, for every call, which instances of that name that had
// been handed out earlier were already closing when the call BEGAN; the engine must never hand one of those out
// again (a request that arrives after a swamp started to close has to wait for the close and get a new instance).
// A close that starts while the call is in progress is not judged: that window is the engine's known race.
type summonProbe struct {
	hydra.Hydra
	mu       sync.Mutex
	handed   map[string][]swamp.Swamp
	finding  string
	summons  int64
	judgable int64 // calls that began while an earlier instance was closing
	// per request goroutine: its vigil was certainly begun before the instance started to close
	vigilBeforeClose map[int32]bool
}

func (h *summonProbe) SummonSwamp(ctx context.Context, islandID uint64, swampName name.Name) (swamp.Swamp, error) {
	key := swampName.Get()
	h.mu.Lock()
	earlier := append([]swamp.Swamp(nil), h.handed[key]...)
	h.summons++
	h.mu.Unlock()
	var closingAtEntry []swamp.Swamp
	for _, in := range earlier {
		if in.IsClosing() {
			closingAtEntry = append(closingAtEntry, in)
		}
	}
	sw, err := h.Hydra.SummonSwamp(ctx, islandID, swampName)
	h.mu.Lock()
	defer h.mu.Unlock()
	if len(closingAtEntry) > 0 {
		h.judgable++
	}
	if err != nil || sw == nil {
		return sw, err
	}
	known := false
	for _, in := range earlier {
		if in == sw {
			known = true
		}
	}
	for _, in := range closingAtEntry {
		if in == sw && h.finding == "" {
			h.finding = fmt.Sprintf("SummonSwamp(%s) returned an instance that had already begun to close before the call started", key)
		}
	}
	if !known {
		dup := false
		for _, in := range h.handed[key] {
			if in == sw {
				dup = true
			}
		}
		if !dup {
			h.handed[key] = append(h.handed[key], sw)
		}
	}
	return &swampProbe{Swamp: sw, p: h}, err
}

// swampProbe is what the gateway is handed instead of the instance itself: it notes, per request goroutine,
// whether the request's vigil had begun before the instance started to close. (Observed AFTER BeginVigil returned: if
// the instance is not closing then, the vigil certainly preceded any close or destroy, which must then wait for it
// and keep what the request stores. The opposite observation proves nothing.)
type swampProbe struct {
	swamp.Swamp
	p *summonProbe
}

func (s *swampProbe) BeginVigil() {
	s.Swamp.BeginVigil()
	ctx, cancel := context.WithCancel(context.Background())
	cancel()
	err := s.Swamp.WaitForGracefulClose(ctx) // answers at once and changes nothing
	before := err != nil && err.Error() == "swamp is not closing yet"
	id := simrt.Self()
	s.p.mu.Lock()
	if s.p.vigilBeforeClose == nil {
		s.p.vigilBeforeClose = map[int32]bool{}
	}
	s.p.vigilBeforeClose[id] = before
	s.p.mu.Unlock()
}

// vigilHeldBeforeClose reports whether the last vigil the given request goroutine began was certainly begun before
// its instance started to close.
func (h *summonProbe) vigilHeldBeforeClose(goroutine int32) bool {
	h.mu.Lock()
	defer h.mu.Unlock()
	return h.vigilBeforeClose[goroutine]
}

type zeusProbe struct {
	zeus.Zeus
	h *summonProbe
}

func (z *zeusProbe) GetHydra() hydra.Hydra { return z.h }

// watchSummons routes the gateway's engine access through a summonProbe.
func (s *simServer) watchSummons() *summonProbe {
	p := &summonProbe{Hydra: s.zeus.GetHydra(), handed: map[string][]swamp.Swamp{}}
	s.gw.ZeusInterface = &zeusProbe{Zeus: s.zeus, h: p}
	return p
}

type simServer struct {
	disk     *simdisk.Disk
	settings settings.Settings
	zeus     zeus.Zeus
	gw       gateway.Gateway
	logs     *logCapture
}

const simRoot = "/hydraide"

// startServer assembles the server the way server.Start does (settings ->
// zeus -> hydra -> gateway), on the given simulated disk.
func startServer(d *simdisk.Disk, closeAfterIdle, writeInterval int64) *simServer {
	return startServerEngine(d, closeAfterIdle, writeInterval, true)
}

// startServerEngine starts the server with the V2 (single file) or the legacy V1 (chunk files) engine.
func startServerEngine(d *simdisk.Disk, closeAfterIdle, writeInterval int64, v2engine bool) *simServer {
	d.Env["HYDRAIDE_ROOT_PATH"] = simRoot
	sos.SetDisk(d)
	sos.SetZombieGuard(true)
	s := &simServer{disk: d, logs: captureLogs()}
	s.settings = settings.New(1, 1000)
	eng := settings.EngineV1
	if v2engine {
		eng = settings.EngineV2
	}
	if err := s.settings.SetEngine(eng); err != nil {
		panic("cannot select engine: " + err.Error())
	}
	s.zeus = zeus.New(s.settings, filesystem.New())
	s.zeus.StartHydra()
	s.gw = gateway.Gateway{
		SettingsInterface:     s.settings,
		ZeusInterface:         s.zeus,
		DefaultCloseAfterIdle: closeAfterIdle,
		DefaultWriteInterval:  writeInterval,
		DefaultFileSize:       8192,
	}
	return s
}

// stop performs the graceful shutdown sequence; it reports whether it
// finished within the simulated timeout.
func (s *simServer) stop(timeout time.Duration) bool {
	id := simrt.GoID(func() {
		// the sequence of server.Stop: mark shutting down (new requests are refused), let the gRPC server drain
		// the unary RPCs that are in flight for at most 60 s (gRPCGracefulStopTimeout), then flush and close the
		// swamps. The transport is a stub here; the system lock every handler holds from entry to return tells
		// whether a request is still in flight.
		s.zeus.GetHydra().MarkShuttingDown()
		for i := 0; i < 600 && s.zeus.GetSafeops().SystemLocked(); i++ {
			simrt.Sleep(100 * time.Millisecond)
		}
		s.zeus.StopHydra()
	})
	return simrt.JoinIDs([]int32{id}, timeout)
}

// seededReader is a deterministic byte stream (xorshift) for uuid.SetRand.
type seededReader struct{ x uint64 }

//
// uuid.NewString is safe for concurrent use with its real (crypto) source; this stand-in is only ever entered
// by the goroutine that holds the run token, and it is kept out of the race detector's sight so that it neither
// reports itself nor orders the goroutines that happen to draw ids.
//
//go:norace
func (r *seededReader) Read(p []byte) (int, error) {
	for i := range p {
		r.x ^= r.x << 13
		r.x ^= r.x >> 7
		r.x ^= r.x << 17
		p[i] = byte(r.x >> 24)
	}
	return len(p), nil
}


// simTimeoutCtx is context.WithTimeout for code that runs under the simulated scheduler: the deadline is a scheduled
// goroutine sleeping on the simulated clock. (context.WithTimeout would arm a runtime timer whose callback runs on a
// goroutine the scheduler does not own, so the moment of the cancellation relative to the other goroutines' steps
// would not replay.) The context reports Canceled, not DeadlineExceeded, when the time is up.
func simTimeoutCtx(parent context.Context, d time.Duration) (context.Context, context.CancelFunc) {
	ctx, cancel := context.WithCancel(parent)
	simrt.Go(func() {
		simrt.Sleep(d)
		cancel()
	})
	return ctx, cancel
}
