package zzharness

import (
	"bufio"
	"bytes"
	"context"
	"fmt"
	"os"
	"sort"
	"strings"
	"testing"
	"time"

	"github.com/hydraide/hydraide/app/zzsim/simdisk"
	"github.com/hydraide/hydraide/app/zzsim/simrt"
	"github.com/hydraide/hydraide/app/zzsim/ssync"
	hydrapb "github.com/hydraide/hydraide/sdk/go/hydraidego/v3/hydraidepbgo"
	"github.com/vmihailenco/msgpack/v5"
	"google.golang.org/grpc/metadata"
	"google.golang.org/protobuf/types/known/timestamppb"
)

// C10 — concurrent use never crashes the server, panics a request or races on memory; every read returns a
// record whose value and metadata belong to one committed version.
//
// The harness binary of this property is built with -race. The scheduler's own hand-off is invisible to the
// race detector (simrt is //go:norace and parks between runtime.RaceDisable/RaceEnable) while the shims report
// the synchronisation the program itself performs (mutex, rwmutex, cond, waitgroup, once, atomics, goroutine
// start/join) with runtime.RaceAcquire/Release, so two accesses that are not ordered by the program's own
// synchronisation are reported although the simulator runs one goroutine at a time. Reports are read back from
// the detector's log file after every run and turned into classes keyed by the pair of innermost repository
// functions.
//
// Workload: readers (Get, GetAll, GetByKeys, GetByIndex on every index, GetByIndexStream with and without
// filters, Count, IsKeyExist) against writers (Set, PatchTreasures, Delete, ShiftByKeys, ShiftMatching) on one
// swamp. Every write stamps one version number v into the value AND into every metadata field it sets, so a
// reply that mixes two versions is visible in the reply itself.

func init() {
	register(&Property{
		ID:    "C10",
		Level: "exploration",
		Rule: "cases = 2..4 clients x <=28 operations on one swamp (typed int64 records or msgpack bodies), 3..6 keys, persistent (write interval 0/1 s) or in-memory, warm or cold (swamp idle-closed after the preload so that every index is rebuilt under load); " +
			"readers: Get, GetAll, GetByKeys, GetByIndex (key/creation/update/expiration/value index, both orders, paging), GetByIndexStream (with/without body filter; a scheduling point inside Send), GetByIndexStreamFromMany, GetStream, Count, IsKeyExist, Uint32SliceSize, in a third of the cases an event subscriber; writers: Set (new + overwrite), PatchTreasures (3 ops + meta), Delete, ShiftByKeys, ShiftMatching, IncrementInt64 (with metadata) and Uint32SlicePush/Delete on separate unstamped keys; " +
			"schedules = seeded preemption at every lock/atomic/file operation; oracles: race detector reports (modelled happens-before), panic log, escaped goroutine panic, worker death, hanging request, version consistency of every returned record; " +
			"non-trivial = a read overlapped a write in simulator event order and at least one preemption happened; distinct = hash of the context-switch trace",
		Gen: genC10,
		Run: runC10,
		Sim: true,
		Assumptions: []string{
			"an anchor record keeps the swamp non-empty (the auto-destroy race is recorded under C16)",
			"race detector semantics: a report needs two accesses without a happens-before path through the program's own synchronisation; accesses are observed on the sampled schedules only",
			"interleavings are decided at synchronisation/atomic/file operations (DESIGN §8)",
		},
		Real: gwReal,
		Stub: append([]string{"sync/sync.atomic primitives (shims that report the same happens-before edges to the race detector as the real ones)", "grpc server stream (recording fake with a scheduling point inside Send)"}, gwStub...),
	})
}

const c10NKeys = 6

// ops: set A=[key, version] | patch A=[key, version] | del A=[key] | shift A=[key] | shiftm A=[grp] |
//
//	get A=[key, key2?] | getall | bykeys A=[mask] | idx A=[type, order, from, limit] | stream A=[type, order, filtered] | count | exist A=[key]
func genC10(seed uint64, tier string) Case {
	r := newRng(seed, "c10")
	c := Case{Prop: "C10", Seed: seed, Cfg: map[string]int64{}}
	if x := r.intn(40); x < 2 {
		// detector self-tests: an unsynchronised counter must be reported, a counter under a shim mutex must not
		c.Cfg["selftest"] = int64(1 + x)
		c.Sched = genSched(r)
		c.Sched.PreemptPPM = 100_000
		return c
	}
	c.Cfg["body"] = int64(r.intn(2))
	c.Cfg["mem"] = int64(r.pick(4, 1))
	c.Cfg["write_interval"] = int64(r.intn(2))
	c.Cfg["cold"] = int64(r.pick(2, 1))
	if c.Cfg["mem"] == 1 {
		c.Cfg["cold"] = 0
	}
	c.Cfg["preload"] = int64(2 + r.intn(4))
	body := c.Cfg["body"] == 1
	nclients := 2 + r.intn(3)
	total := 6 + r.intn(23)
	ver := int64(100) // versions 1..preload are the preloaded ones
	// client 0 mostly reads, the last client mostly writes, the others mix
	for i := 0; i < total; i++ {
		cl := r.intn(nclients)
		wbias := 5
		if cl == 0 {
			wbias = 2
		} else if cl == nclients-1 {
			wbias = 8
		}
		key := int64(r.intn(c10NKeys))
		if r.intn(10) < wbias {
			ver++
			switch r.pick(8, 5, 2, 2, 1, 2, 2, 1) {
			case 5:
				// counter and uint32-set records live next to the versioned ones (their values are not version stamped
				// and are not judged; they exercise Increment*/Uint32Slice* against the same readers)
				c.Ops = append(c.Ops, Op{C: cl, K: "inc", A: []int64{int64(r.intn(2))}})
			case 6:
				c.Ops = append(c.Ops, Op{C: cl, K: "spush", A: []int64{int64(r.intn(2)), int64(1 + r.intn(5))}})
			case 7:
				c.Ops = append(c.Ops, Op{C: cl, K: "sdel", A: []int64{int64(r.intn(2)), int64(1 + r.intn(5))}})
			case 0:
				c.Ops = append(c.Ops, Op{C: cl, K: "set", A: []int64{key, ver}})
			case 1:
				if body {
					c.Ops = append(c.Ops, Op{C: cl, K: "patch", A: []int64{key, ver}})
				} else {
					c.Ops = append(c.Ops, Op{C: cl, K: "set", A: []int64{key, ver}})
				}
			case 2:
				c.Ops = append(c.Ops, Op{C: cl, K: "del", A: []int64{key}})
			case 3:
				c.Ops = append(c.Ops, Op{C: cl, K: "shift", A: []int64{key}})
			default:
				if body {
					c.Ops = append(c.Ops, Op{C: cl, K: "shiftm", A: []int64{int64(r.intn(3))}})
				} else {
					c.Ops = append(c.Ops, Op{C: cl, K: "del", A: []int64{key}})
				}
			}
			continue
		}
		switch r.pick(5, 4, 2, 6, 4, 1, 1, 2, 2, 1, 1) {
		case 7:
			c.Ops = append(c.Ops, Op{C: cl, K: "streammany", A: []int64{int64(r.intn(4)), int64(r.intn(2))}})
		case 8:
			c.Ops = append(c.Ops, Op{C: cl, K: "getstream", A: []int64{int64(1 + r.intn(1<<c10NKeys-1))}})
		case 9:
			c.Ops = append(c.Ops, Op{C: cl, K: "ssize", A: []int64{int64(r.intn(2))}})
		case 10:
			c.Ops = append(c.Ops, Op{C: cl, K: "getc", A: []int64{int64(r.intn(2))}})
		case 0:
			a := []int64{key}
			if r.chance(1, 2) {
				a = append(a, int64(r.intn(c10NKeys)))
			}
			c.Ops = append(c.Ops, Op{C: cl, K: "get", A: a})
		case 1:
			c.Ops = append(c.Ops, Op{C: cl, K: "getall"})
		case 2:
			c.Ops = append(c.Ops, Op{C: cl, K: "bykeys", A: []int64{int64(1 + r.intn(1<<c10NKeys-1))}})
		case 3:
			it := int64(r.intn(5)) // 0 key 1 expiration 2 creation 3 update 4 value
			if body && it == 4 {
				it = int64(r.intn(4))
			}
			c.Ops = append(c.Ops, Op{C: cl, K: "idx", A: []int64{it, int64(r.intn(2)), int64(r.intn(3)), int64(r.intn(4))}})
		case 4:
			// filter: none | a scanned comparison | an EQUAL on one of five body paths (the first query on a path builds its field index)
			c.Ops = append(c.Ops, Op{C: cl, K: "stream", A: []int64{int64(r.intn(4)), int64(r.intn(2)), int64(r.intn(3)), int64(r.intn(5))}})
		case 5:
			c.Ops = append(c.Ops, Op{C: cl, K: "count"})
		default:
			c.Ops = append(c.Ops, Op{C: cl, K: "exist", A: []int64{key}})
		}
	}
	if r.chance(1, 3) {
		c.Cfg["sub"] = 1 // an event subscriber is attached while the clients run
	}
	c.Sched = genSched(r)
	if c.Sched.PreemptPPM == 0 {
		c.Sched.PreemptPPM = 20_000
	}
	return c
}

// ---------------------------------------------------------------------------
// version stamping

type c10stamp struct {
	base time.Time
	body bool
}

func (s c10stamp) created(v int64) time.Time { return s.base.Add(time.Duration(v) * time.Second) }
func (s c10stamp) updated(v int64) time.Time {
	return s.base.Add(time.Duration(v)*time.Second + 500*time.Millisecond)
}
func (s c10stamp) expired(v int64) time.Time {
	return s.base.Add(24*time.Hour + time.Duration(v)*time.Second)
}
func c10by(p string, v int64) string { return fmt.Sprintf("%s%d", p, v) }

type c10body struct {
	N   int64  `msgpack:"n"`
	S   string `msgpack:"s"`
	Grp int64  `msgpack:"grp"`
}

func (s c10stamp) kv(key string, v int64) *hydrapb.KeyValuePair {
	kv := &hydrapb.KeyValuePair{Key: key}
	if s.body {
		b, _ := msgpack.Marshal(c10body{N: v, S: c10by("s", v), Grp: v % 3})
		kv.BytesVal = append([]byte{0xC7, 0x00}, b...)
	} else {
		kv.Int64Val = &v
	}
	cb, ub := c10by("c", v), c10by("u", v)
	kv.CreatedBy, kv.UpdatedBy = &cb, &ub
	kv.CreatedAt = timestamppb.New(s.created(v))
	kv.UpdatedAt = timestamppb.New(s.updated(v))
	kv.ExpiredAt = timestamppb.New(s.expired(v))
	return kv
}

// consistent checks that every field of a returned record carries one version; it returns "" or what differs.
// patched tells that the key may have been written by PatchTreasures, which leaves created/updatedAt alone.
func (s c10stamp) consistent(tr *hydrapb.Treasure, patched bool) string {
	var v int64
	if s.body {
		raw := tr.BytesVal
		if raw == nil {
			return "the record has no value (every committed version has one)"
		}
		if len(raw) >= 2 && raw[0] == 0xC7 && raw[1] == 0x00 {
			raw = raw[2:]
		}
		var b c10body
		if err := msgpack.Unmarshal(raw, &b); err != nil {
			return "the body does not decode: " + err.Error()
		}
		v = b.N
		if b.S != c10by("s", v) {
			return fmt.Sprintf("body field n is of version %d, body field s is %q", v, b.S)
		}
	} else {
		if tr.Int64Val == nil {
			return "the record has no value (every committed version has one)"
		}
		v = *tr.Int64Val
	}
	if got := tr.GetUpdatedBy(); got != c10by("u", v) {
		return fmt.Sprintf("value is of version %d, updatedBy is %q", v, got)
	}
	if tr.ExpiredAt == nil || !tr.ExpiredAt.AsTime().Equal(s.expired(v)) {
		return fmt.Sprintf("value is of version %d, expiredAt is %v (version %d has %v)", v, tsOrNil(tr.ExpiredAt), v, s.expired(v).UTC())
	}
	if patched {
		return ""
	}
	if got := tr.GetCreatedBy(); got != c10by("c", v) {
		return fmt.Sprintf("value is of version %d, createdBy is %q", v, got)
	}
	if tr.CreatedAt == nil || !tr.CreatedAt.AsTime().Equal(s.created(v)) {
		return fmt.Sprintf("value is of version %d, createdAt is %v", v, tsOrNil(tr.CreatedAt))
	}
	if tr.UpdatedAt == nil || !tr.UpdatedAt.AsTime().Equal(s.updated(v)) {
		return fmt.Sprintf("value is of version %d, updatedAt is %v", v, tsOrNil(tr.UpdatedAt))
	}
	return ""
}

func tsOrNil(t *timestamppb.Timestamp) string {
	if t == nil {
		return "unset"
	}
	return t.AsTime().UTC().Format(time.RFC3339Nano)
}

// ---------------------------------------------------------------------------

type c10stream struct {
	ctx context.Context
	got []*hydrapb.GetByIndexStreamResponse
}

func (f *c10stream) SetHeader(metadata.MD) error  { return nil }
func (f *c10stream) SendHeader(metadata.MD) error { return nil }
func (f *c10stream) SetTrailer(metadata.MD)       {}
func (f *c10stream) Context() context.Context     { return f.ctx }
func (f *c10stream) RecvMsg(m any) error          { return nil }
func (f *c10stream) SendMsg(m any) error          { return nil }
func (f *c10stream) Send(m *hydrapb.GetByIndexStreamResponse) error {
	simrt.Yield(simrt.SiteOther) // a send is a point at which the writer of the next record may run
	f.got = append(f.got, m)
	return nil
}

// c10events records the events one subscriber is sent. The gateway serialises the sends of one subscription with a
// mutex of its own, which is what orders the appends below for the race detector; a send is a scheduling point.
type c10events struct {
	ctx context.Context
	got []*hydrapb.SubscribeToEventsResponse
}

func (f *c10events) SetHeader(metadata.MD) error  { return nil }
func (f *c10events) SendHeader(metadata.MD) error { return nil }
func (f *c10events) SetTrailer(metadata.MD)       {}
func (f *c10events) Context() context.Context     { return f.ctx }
func (f *c10events) RecvMsg(m any) error          { return nil }
func (f *c10events) Send(m *hydrapb.SubscribeToEventsResponse) error { return f.SendMsg(m) }
func (f *c10events) SendMsg(m any) error {
	simrt.Yield(simrt.SiteOther)
	if r, ok := m.(*hydrapb.SubscribeToEventsResponse); ok {
		f.got = append(f.got, r)
	}
	return nil
}

type c10many struct {
	ctx context.Context
	got []*hydrapb.GetByIndexStreamFromManyResponse
}

func (f *c10many) SetHeader(metadata.MD) error  { return nil }
func (f *c10many) SendHeader(metadata.MD) error { return nil }
func (f *c10many) SetTrailer(metadata.MD)       {}
func (f *c10many) Context() context.Context     { return f.ctx }
func (f *c10many) RecvMsg(m any) error          { return nil }
func (f *c10many) SendMsg(m any) error          { return nil }
func (f *c10many) Send(m *hydrapb.GetByIndexStreamFromManyResponse) error {
	simrt.Yield(simrt.SiteOther)
	f.got = append(f.got, m)
	return nil
}

type c10profile struct {
	ctx context.Context
	got []*hydrapb.GetStreamResponse
}

func (f *c10profile) SetHeader(metadata.MD) error  { return nil }
func (f *c10profile) SendHeader(metadata.MD) error { return nil }
func (f *c10profile) SetTrailer(metadata.MD)       {}
func (f *c10profile) Context() context.Context     { return f.ctx }
func (f *c10profile) RecvMsg(m any) error          { return nil }
func (f *c10profile) SendMsg(m any) error          { return nil }
func (f *c10profile) Send(m *hydrapb.GetStreamResponse) error {
	simrt.Yield(simrt.SiteOther)
	f.got = append(f.got, m)
	return nil
}

// c10ev is one finished request in a client's private log (clients never share memory with each other: the
// harness must not add happens-before edges between them, nor race itself).
type c10ev struct {
	op        Op
	call, ret int64
	err       string
	recs      []*hydrapb.Treasure
}

func c10key(i int64) string { return fmt.Sprintf("k%d", i) }

func runC10(t *testing.T, c Case) (res Result) {
	raceDrain() // reports of stragglers of earlier runs do not belong to this case
	if st := c.cfg("selftest", 0); st != 0 {
		return c10selftest(t, c, st)
	}
	body := c.cfg("body", 0) == 1
	wi := c.cfg("write_interval", 1)
	swamp := "verif/per/race"
	if c.cfg("mem", 0) == 1 {
		swamp = "verif/mem/race"
	}
	cold := c.cfg("cold", 0) == 1
	idle := int64(3600)
	if cold {
		idle = 2
	}
	maxC := 0
	for _, op := range c.Ops {
		if op.C > maxC {
			maxC = op.C
		}
	}
	logs := make([][]c10ev, maxC+1)
	var events *c10events
	var stamp c10stamp
	stuck := false
	panicked := ""
	out := runSim(t, c.Sched, func() {
		stamp = c10stamp{base: time.Now().Truncate(time.Second), body: body}
		disk := simdisk.New()
		srv := startServer(disk, idle, wi)
		gw := srv.gw
		root := &gwClient{srv: srv, island: 1, timeout: 120 * time.Second}
		root.register("verif/per/*", false, idle, wi)
		root.register("verif/mem/*", true, 3600, 0)
		sv := "anchor"
		pre := []*hydrapb.KeyValuePair{{Key: "zz-anchor", StringVal: &sv}}
		if body {
			pre[0] = &hydrapb.KeyValuePair{Key: "zz-anchor", BytesVal: append([]byte{0xC7, 0x00}, mp(map[string]any{"anchor": true})...)}
		}
		for i := int64(0); i < c.cfg("preload", 3); i++ {
			pre = append(pre, stamp.kv(c10key(i), i+1))
		}
		root.set(swamp, pre, true, true)
		if cold {
			simrt.Sleep(6 * time.Second) // idle close: the next request reloads the swamp, every time/value index is cold
		}
		byClient := map[int][]Op{}
		for _, op := range c.Ops {
			byClient[op.C] = append(byClient[op.C], op)
		}
		do := func(op Op) (ev c10ev) {
			ev.op = op
			ev.call = simrt.EventSeq()
			defer func() { ev.ret = simrt.EventSeq() }()
			fail := func(err error, what string) {
				if err != nil {
					ev.err = what + ": " + err.Error()
				}
			}
			switch op.K {
			case "set":
				resp, err := gw.Set(ctxBg, &hydrapb.SetRequest{Swamps: []*hydrapb.SwampRequest{{IslandID: 1, SwampName: swamp, CreateIfNotExist: true, Overwrite: true,
					KeyValues: []*hydrapb.KeyValuePair{stamp.kv(c10key(op.A[0]), op.A[1])}}}})
				fail(err, "Set")
				if err == nil && (resp == nil || len(resp.Swamps) != 1 || len(resp.Swamps[0].KeysAndStatuses) != 1) {
					ev.err = "Set: malformed reply"
				}
			case "patch":
				v := op.A[1]
				ub := c10by("u", v)
				resp, err := gw.PatchTreasures(ctxBg, &hydrapb.PatchTreasuresRequest{IslandID: 1, SwampName: swamp,
					Patches: []*hydrapb.TreasurePatch{{Key: c10key(op.A[0]),
						Ops:  []*hydrapb.PatchOp{{Op: hydrapb.PatchOp_SET, Path: "n", Value: mp(v)}, {Op: hydrapb.PatchOp_SET, Path: "s", Value: mp(c10by("s", v))}, {Op: hydrapb.PatchOp_SET, Path: "grp", Value: mp(v % 3)}},
						Meta: &hydrapb.PatchMeta{SetUpdatedBy: &ub, SetExpiredAt: timestamppb.New(stamp.expired(v))}}}})
				fail(err, "PatchTreasures")
				if err == nil && (resp == nil || len(resp.Results) != 1) {
					ev.err = "PatchTreasures: malformed reply"
				}
			case "del":
				_, err := gw.Delete(ctxBg, &hydrapb.DeleteRequest{Swamps: []*hydrapb.DeleteRequest_SwampKeys{{IslandID: 1, SwampName: swamp, Keys: []string{c10key(op.A[0])}}}})
				fail(err, "Delete")
			case "shift":
				resp, err := gw.ShiftByKeys(ctxBg, &hydrapb.ShiftByKeysRequest{IslandID: 1, SwampName: swamp, Keys: []string{c10key(op.A[0])}})
				fail(err, "ShiftByKeys")
				if resp != nil {
					ev.recs = resp.Treasures
				}
			case "shiftm":
				p := "grp"
				resp, err := gw.ShiftMatchingTreasures(ctxBg, &hydrapb.ShiftMatchingTreasuresRequest{IslandID: 1, SwampName: swamp, IndexType: hydrapb.IndexType_KEY, HowMany: 1,
					Filters: &hydrapb.FilterGroup{Logic: hydrapb.FilterLogic_AND, Filters: []*hydrapb.TreasureFilter{{BytesFieldPath: &p, Operator: hydrapb.Relational_EQUAL, CompareValue: &hydrapb.TreasureFilter_Int64Val{Int64Val: op.A[0]}}}}})
				fail(err, "ShiftMatchingTreasures")
				if resp != nil {
					ev.recs = resp.Treasures
				}
			case "get":
				var keys []string
				for _, k := range op.A {
					keys = append(keys, c10key(k))
				}
				resp, err := gw.Get(ctxBg, &hydrapb.GetRequest{Swamps: []*hydrapb.GetSwamp{{IslandID: 1, SwampName: swamp, Keys: keys}}})
				fail(err, "Get")
				if resp != nil && len(resp.Swamps) == 1 {
					for _, tr := range resp.Swamps[0].Treasures {
						if tr.IsExist {
							ev.recs = append(ev.recs, tr)
						}
					}
				}
			case "getall":
				resp, err := gw.GetAll(ctxBg, &hydrapb.GetAllRequest{IslandID: 1, SwampName: swamp})
				fail(err, "GetAll")
				if resp != nil {
					ev.recs = resp.Treasures
				}
			case "bykeys":
				var keys []string
				for i := int64(0); i < c10NKeys; i++ {
					if op.A[0]&(1<<i) != 0 {
						keys = append(keys, c10key(i))
					}
				}
				resp, err := gw.GetByKeys(ctxBg, &hydrapb.GetByKeysRequest{IslandID: 1, SwampName: swamp, Keys: keys})
				fail(err, "GetByKeys")
				if resp != nil {
					ev.recs = resp.Treasures
				}
			case "idx":
				it := []hydrapb.IndexType_Type{hydrapb.IndexType_KEY, hydrapb.IndexType_EXPIRATION_TIME, hydrapb.IndexType_CREATION_TIME, hydrapb.IndexType_UPDATE_TIME, hydrapb.IndexType_VALUE_INT64}[op.A[0]]
				resp, err := gw.GetByIndex(ctxBg, &hydrapb.GetByIndexRequest{IslandID: 1, SwampName: swamp, IndexType: it, OrderType: hydrapb.OrderType_Type(op.A[1]), From: int32(op.A[2]), Limit: int32(op.A[3])})
				fail(err, "GetByIndex")
				if resp != nil {
					ev.recs = resp.Treasures
				}
			case "stream":
				it := []hydrapb.IndexType_Type{hydrapb.IndexType_KEY, hydrapb.IndexType_EXPIRATION_TIME, hydrapb.IndexType_CREATION_TIME, hydrapb.IndexType_UPDATE_TIME}[op.A[0]]
				q := &hydrapb.GetByIndexStreamRequest{IslandID: 1, SwampName: swamp, IndexType: it, OrderType: hydrapb.OrderType_Type(op.A[1])}
				if op.A[2] == 2 && body && len(op.A) > 3 {
					p := []string{"grp", "n", "ver", "cl", "zz"}[op.A[3]%5]
					q.Filters = &hydrapb.FilterGroup{Logic: hydrapb.FilterLogic_AND, Filters: []*hydrapb.TreasureFilter{{BytesFieldPath: &p, Operator: hydrapb.Relational_EQUAL, CompareValue: &hydrapb.TreasureFilter_Int64Val{Int64Val: op.A[0]}}}}
				} else if op.A[2] >= 1 {
					if body {
						p := "n"
						q.Filters = &hydrapb.FilterGroup{Logic: hydrapb.FilterLogic_AND, Filters: []*hydrapb.TreasureFilter{{BytesFieldPath: &p, Operator: hydrapb.Relational_GREATER_THAN, CompareValue: &hydrapb.TreasureFilter_Int64Val{Int64Val: 0}}}}
					} else {
						q.Filters = &hydrapb.FilterGroup{Logic: hydrapb.FilterLogic_AND, Filters: []*hydrapb.TreasureFilter{{Operator: hydrapb.Relational_GREATER_THAN, CompareValue: &hydrapb.TreasureFilter_Int64Val{Int64Val: 0}}}}
					}
				}
				st := &c10stream{ctx: ctxBg}
				fail(gw.GetByIndexStream(q, st), "GetByIndexStream")
				for _, m := range st.got {
					if m.Treasure != nil {
						ev.recs = append(ev.recs, m.Treasure)
					}
				}
			case "inc":
				by := c10by("u", 0)
				_, err := gw.IncrementInt64(ctxBg, &hydrapb.IncrementInt64Request{IslandID: 1, SwampName: swamp, Key: fmt.Sprintf("c%d", op.A[0]), IncrementBy: 1,
					SetIfExist: &hydrapb.IncrementRequestMetadata{UpdatedBy: &by}, SetIfNotExist: &hydrapb.IncrementRequestMetadata{CreatedBy: &by}})
				fail(err, "IncrementInt64")
			case "getc":
				_, err := gw.Get(ctxBg, &hydrapb.GetRequest{Swamps: []*hydrapb.GetSwamp{{IslandID: 1, SwampName: swamp, Keys: []string{fmt.Sprintf("c%d", op.A[0]), fmt.Sprintf("s%d", op.A[0])}}}})
				fail(err, "Get")
			case "spush":
				_, err := gw.Uint32SlicePush(ctxBg, &hydrapb.AddToUint32SlicePushRequest{IslandID: 1, SwampName: swamp, KeySlicePairs: []*hydrapb.KeySlicePair{{Key: fmt.Sprintf("s%d", op.A[0]), Values: []uint32{uint32(op.A[1]), uint32(op.A[1] + 1)}}}})
				fail(err, "Uint32SlicePush")
			case "sdel":
				// ("the record does not exist" is a legal answer: nothing was pushed yet, or the set was emptied)
				gw.Uint32SliceDelete(ctxBg, &hydrapb.Uint32SliceDeleteRequest{IslandID: 1, SwampName: swamp, KeySlicePairs: []*hydrapb.KeySlicePair{{Key: fmt.Sprintf("s%d", op.A[0]), Values: []uint32{uint32(op.A[1])}}}})
			case "ssize":
				gw.Uint32SliceSize(ctxBg, &hydrapb.Uint32SliceSizeRequest{IslandID: 1, SwampName: swamp, Key: fmt.Sprintf("s%d", op.A[0])}) // "not a slice / no such key" are legal answers
			case "streammany":
				it := []hydrapb.IndexType_Type{hydrapb.IndexType_KEY, hydrapb.IndexType_EXPIRATION_TIME, hydrapb.IndexType_CREATION_TIME, hydrapb.IndexType_UPDATE_TIME}[op.A[0]]
				st := &c10many{ctx: ctxBg}
				fail(gw.GetByIndexStreamFromMany(&hydrapb.GetByIndexStreamFromManyRequest{Queries: []*hydrapb.SwampQuery{{IslandID: 1, SwampName: swamp, IndexType: it, OrderType: hydrapb.OrderType_Type(op.A[1])}}}, st), "GetByIndexStreamFromMany")
				for _, m := range st.got {
					if m.Treasure != nil {
						ev.recs = append(ev.recs, m.Treasure)
					}
				}
			case "getstream":
				var keys []string
				for i := int64(0); i < c10NKeys; i++ {
					if op.A[0]&(1<<i) != 0 {
						keys = append(keys, c10key(i))
					}
				}
				st := &c10profile{ctx: ctxBg}
				fail(gw.GetStream(&hydrapb.GetStreamRequest{Queries: []*hydrapb.ProfileSwampQuery{{IslandID: 1, SwampName: swamp, Keys: keys}}}, st), "GetStream")
				for _, m := range st.got {
					for _, tr := range m.Treasures {
						if tr != nil && tr.IsExist {
							ev.recs = append(ev.recs, tr)
						}
					}
				}
			case "count":
				_, err := gw.Count(ctxBg, &hydrapb.CountRequest{Swamps: []*hydrapb.CountRequest_SwampIdentifier{{IslandID: 1, SwampName: swamp}}})
				fail(err, "Count")
			case "exist":
				_, err := gw.IsKeyExist(ctxBg, &hydrapb.IsKeyExistRequest{IslandID: 1, SwampName: swamp, Key: c10key(op.A[0])})
				fail(err, "IsKeyExist")
			}
			return ev
		}
		var subID int32 = -1
		var cancelSub context.CancelFunc
		if c.cfg("sub", 0) == 1 {
			ctx, cancel := context.WithCancel(context.Background())
			cancelSub = cancel
			events = &c10events{ctx: ctx}
			subID = simrt.GoID(func() {
				gw.SubscribeToEvents(&hydrapb.SubscribeToEventsRequest{IslandID: 1, SwampName: swamp}, events)
			})
			for i := 0; i < 50 && !simrt.RawBlocked(subID) && !simrt.GDone(subID); i++ {
				simrt.Sleep(time.Millisecond)
			}
		}
		var ids []int32
		for cl := 0; cl <= maxC; cl++ {
			cl := cl
			ops := byClient[cl]
			if len(ops) == 0 {
				continue
			}
			ids = append(ids, simrt.GoID(func() {
				for _, op := range ops {
					logs[cl] = append(logs[cl], do(op))
				}
			}))
		}
		if !simrt.JoinIDs(ids, 10*time.Minute) {
			stuck = true
			return
		}
		if subID >= 0 {
			cancelSub()
			if !simrt.JoinIDs([]int32{subID}, 2*time.Minute) {
				stuck = true
				return
			}
		}
		if e := srv.logs.find("grpc gateway panic"); e != "" {
			panicked = e
		}
		srv.stop(5 * time.Minute)
	})
	res.SimNanos = out.stats.SimNanos
	res.TraceHash = out.stats.Hash
	res.PreemptSteps = out.stats.PreemptSteps
	res.count("sched_steps", out.stats.Steps)
	res.count("preemptions", out.stats.Preemptions)
	cfgSig := fmt.Sprintf("[body=%d mem=%d wi=%d cold=%d]", c.cfg("body", 0), c.cfg("mem", 0), wi, c.cfg("cold", 0))
	var classes []string
	details := map[string]string{}
	add := func(class, f string, a ...any) {
		if _, ok := details[class]; !ok {
			classes = append(classes, class)
			details[class] = cfgSig + " " + fmt.Sprintf(f, a...)
		}
	}
	races := raceDrain()
	for _, rp := range races {
		add(rp.class, "%s", rp.text)
		res.count("race_reports", 1)
	}
	if out.rootPanic != "" {
		add("harness_panic", "root: %s", oneLine(out.rootPanic, 600))
	}
	if out.escaped != "" {
		add("server_goroutine_panic:"+panicSite(out.escaped), "a server goroutine panicked (the process would die): %s", oneLine(out.escaped, 700))
	}
	if panicked != "" {
		add("request_panicked:"+panicSiteLog(panicked), "a request handler panicked under concurrency: %s", oneLine(panicked, 700))
	}
	if stuck && !out.aborted {
		add("requests_never_return", "concurrent requests had not all returned after 10 simulated minutes")
	}
	// version consistency of every returned record
	type wiv struct {
		key       string
		call, ret int64
		removal   bool
	}
	var writes []wiv
	patchedKey := map[string]bool{}
	overlapRW := false
	var all []c10ev
	for _, l := range logs {
		all = append(all, l...)
	}
	for _, ev := range all {
		switch ev.op.K {
		case "set":
			writes = append(writes, wiv{c10key(ev.op.A[0]), ev.call, ev.ret, false})
		case "patch":
			writes = append(writes, wiv{c10key(ev.op.A[0]), ev.call, ev.ret, false})
			patchedKey[c10key(ev.op.A[0])] = true
		case "del", "shift":
			writes = append(writes, wiv{c10key(ev.op.A[0]), ev.call, ev.ret, true})
		case "shiftm":
			writes = append(writes, wiv{"*", ev.call, ev.ret, true})
		}
	}
	for _, ev := range all {
		if ev.err != "" {
			add("request_failed_"+ev.op.K, "client %d %s%v: %s", ev.op.C, ev.op.K, ev.op.A, ev.err)
		}
		if ev.ret == 0 {
			continue
		}
		isRead := true
		switch ev.op.K {
		case "set", "patch", "del":
			isRead = false
		}
		for _, tr := range ev.recs {
			if tr == nil || tr.Key == "zz-anchor" || !strings.HasPrefix(tr.Key, "k") {
				continue // anchor, counters and uint32 sets carry no version stamp
			}
			ovW, ovR := false, false
			for _, w := range writes {
				if (w.key == tr.Key || w.key == "*") && w.call < ev.ret && ev.call < w.ret && !(w.call == ev.call) {
					if w.removal {
						ovR = true
					} else {
						ovW = true
					}
				}
			}
			if isRead && (ovW || ovR) {
				overlapRW = true
			}
			if why := stamp.consistent(tr, patchedKey[tr.Key]); why != "" {
				during := "no_overlapping_write"
				switch {
				case ovR && ovW:
					during = "overlapping_write_and_removal"
				case ovR:
					during = "overlapping_removal"
				case ovW:
					during = "overlapping_write"
				}
				add("mixed_version_record_from_"+ev.op.K+"_"+during, "client %d %s%v [events %d..%d] returned %s: %s", ev.op.C, ev.op.K, ev.op.A, ev.call, ev.ret, tr.Key, why)
			}
		}
	}
	if events != nil {
		res.count("events_delivered", int64(len(events.got)))
		for _, m := range events.got {
			for _, tr := range []*hydrapb.Treasure{m.Treasure, m.DeletedTreasure} {
				if tr == nil || !strings.HasPrefix(tr.Key, "k") || !tr.IsExist {
					continue
				}
				if m.Status != hydrapb.Status_NEW && m.Status != hydrapb.Status_UPDATED && m.Status != hydrapb.Status_DELETED {
					continue
				}
				if why := stamp.consistent(tr, patchedKey[tr.Key]); why != "" {
					add("mixed_version_record_in_event_"+m.Status.String(), "subscriber was sent %s for %s: %s", m.Status, tr.Key, why)
				}
			}
		}
	}
	if len(classes) > 0 {
		sort.Strings(classes)
		// harness trouble first, then panics, then the rest
		x := violation(classes[0], "%s", details[classes[0]])
		x.Classes = classes
		x.Details = details
		x.TraceHash, x.PreemptSteps, x.SimNanos, x.Counters = res.TraceHash, res.PreemptSteps, res.SimNanos, res.Counters
		return x
	}
	if out.aborted || out.stats.OverBudget {
		return Result{Verdict: "inconclusive", Detail: "scheduler budget exhausted"}
	}
	res.Verdict = "ok"
	res.Nontrivial = overlapRW && out.stats.Preemptions > 0
	res.Fingerprint = fnv(out.stats.Hash, len(c.Ops))
	return res
}

func panicSite(s string) string {
	// first repository frame of the stack
	for _, line := range strings.Split(s, "\n") {
		l := strings.TrimSpace(line)
		if strings.HasPrefix(l, "github.com/hydraide/hydraide/app/") && !strings.Contains(l, "/zzsim/") && !strings.Contains(l, "/zzharness") && !strings.Contains(l, "panichandler") {
			return shortFunc(l)
		}
	}
	return "unknown"
}

func panicSiteLog(s string) string {
	if i := strings.Index(s, "github.com/hydraide/hydraide/app/"); i >= 0 {
		return shortFunc(s[i:])
	}
	return "unknown"
}

// shortFunc turns "github.com/hydraide/hydraide/app/core/hydra/swamp/treasure.(*treasure).SetContentInt64(...)" into
// "treasure.(*treasure).SetContentInt64".
func shortFunc(l string) string {
	if i := strings.IndexAny(l, " \t\\"); i >= 0 {
		l = l[:i]
	}
	if i := strings.LastIndex(l, "("); i > 0 && strings.HasSuffix(l, ")") && !strings.HasSuffix(l[:i], ".") {
		// trailing argument list "(...)" / "()"
		if j := strings.LastIndex(l, "("); j > 0 && (l[j:] == "()" || l[j:] == "(...)") {
			l = l[:j]
		}
	}
	if i := strings.LastIndex(l, "/"); i >= 0 {
		l = l[i+1:]
	}
	return l
}

// ---------------------------------------------------------------------------
// race detector reports

type raceReport struct {
	class string
	text  string
}

var raceLogOff int64

// raceDrain returns the reports the race detector wrote since the last call.
func raceDrain() []raceReport {
	prefix := os.Getenv("VERIF_RACE_LOG")
	if prefix == "" || !simrt.RaceEnabled {
		return nil
	}
	f, err := os.Open(fmt.Sprintf("%s.%d", prefix, os.Getpid()))
	if err != nil {
		return nil // nothing reported yet
	}
	defer f.Close()
	if _, err := f.Seek(raceLogOff, 0); err != nil {
		return nil
	}
	var buf bytes.Buffer
	n, _ := buf.ReadFrom(bufio.NewReader(f))
	raceLogOff += n
	return parseRaceReports(buf.String())
}

func parseRaceReports(s string) []raceReport {
	var out []raceReport
	for _, blk := range strings.Split(s, "==================") {
		if !strings.Contains(blk, "WARNING: DATA RACE") {
			continue
		}
		// the two access stacks are the first two sections; sections are separated by blank lines
		var sites []string
		secs := strings.Split(strings.TrimSpace(blk), "\n\n")
		for _, sec := range secs {
			lines := strings.Split(sec, "\n")
			head := ""
			for _, l := range lines {
				if tl := strings.TrimSpace(l); tl != "" && tl != "WARNING: DATA RACE" {
					head = tl
					break
				}
			}
			isAccess := strings.HasPrefix(head, "Read at") || strings.HasPrefix(head, "Write at") || strings.HasPrefix(head, "Previous read at") || strings.HasPrefix(head, "Previous write at") ||
				strings.HasPrefix(head, "Atomic") || strings.HasPrefix(head, "Previous atomic")
			if !isAccess {
				continue
			}
			site := "unknown"
			if strings.Contains(sec, "failed to restore the stack") {
				site = "stack_lost"
			}
			for _, l := range lines {
				tl := strings.TrimSpace(l)
				if !strings.HasPrefix(tl, "github.com/hydraide/hydraide/") {
					continue
				}
				if strings.Contains(tl, "/app/zzsim/") {
					continue
				}
				if strings.Contains(tl, "/app/zzharness.") && !strings.Contains(tl, "c10counter") {
					// memory the client filled in before it sent the request (in production: the gRPC unmarshaller)
					site = "request_message"
					break
				}
				site = shortFunc(tl)
				break
			}
			sites = append(sites, site)
			if len(sites) == 2 {
				break
			}
		}
		for len(sites) < 2 {
			sites = append(sites, "unknown")
		}
		sort.Strings(sites)
		class := "data_race:" + sites[0] + "|" + sites[1]
		if sites[0] == "request_message" && sites[1] == "request_message" {
			class = "harness_race:" + oneLine(blk, 300)
		}
		out = append(out, raceReport{class: class, text: oneLine(strings.TrimSpace(blk), 6000)})
	}
	return out
}

// ---------------------------------------------------------------------------
// detector self-tests (run as ordinary cases so that every batch proves the detector is armed and precise)

type c10counter struct {
	mu ssync.Mutex
	n  int
}

//go:noinline
func (c *c10counter) bumpUnlocked() { c.n++ }

//go:noinline
func (c *c10counter) bumpLocked() { c.mu.Lock(); c.n++; c.mu.Unlock() }

func c10selftest(t *testing.T, c Case, kind int64) (res Result) {
	ctr := &c10counter{}
	out := runSim(t, c.Sched, func() {
		var ids []int32
		for i := 0; i < 2; i++ {
			ids = append(ids, simrt.GoID(func() {
				for j := 0; j < 3; j++ {
					if kind == 1 {
						simrt.Yield(simrt.SiteOther)
						ctr.bumpUnlocked()
					} else {
						ctr.bumpLocked()
					}
				}
			}))
		}
		simrt.JoinIDs(ids, time.Minute)
	})
	res.SimNanos = out.stats.SimNanos
	res.TraceHash = out.stats.Hash
	reports := raceDrain()
	if !simrt.RaceEnabled {
		return Result{Verdict: "infra", Detail: "the C10 harness was built without -race"}
	}
	hit := false
	for _, r := range reports {
		if strings.Contains(r.text, "bumpUnlocked") || strings.Contains(r.text, "bumpLocked") {
			hit = true
		}
	}
	switch {
	case kind == 1 && !hit:
		return Result{Verdict: "infra", Detail: "race detector self-test: two goroutines incrementing an unprotected counter were not reported"}
	case kind == 2 && hit:
		return Result{Verdict: "infra", Detail: "race detector self-test: a counter protected by a shim mutex was reported as racy: " + oneLine(reports[0].text, 600)}
	}
	res.Verdict = "ok"
	res.count(fmt.Sprintf("detector_selftest_%d_ok", kind), 1)
	return res
}
