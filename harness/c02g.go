package zzharness

import (
	"fmt"
	"sort"
	"strings"
	"testing"
	"time"

	"github.com/hydraide/hydraide/app/zzsim/simdisk"
	"github.com/hydraide/hydraide/app/zzsim/simrt"
	hydrapb "github.com/hydraide/hydraide/sdk/go/hydraidego/v3/hydraidepbgo"
)

// C02, whole-server layer ("layer 2"): the crash lands on the complete server, not on a bare chronicler.
//
// Phase A runs a sequential client history (Set / Delete / ShiftByKeys / waits that let the write ticker and the
// idle close run / graceful restarts) against the in-process server inside a synctest bubble and records, for
// every request, the length of the simulated disk's operation log when it was invoked and when it was
// acknowledged, plus the durability points the API promises:
//   - write interval 0: a Set is durable when it is acknowledged (the save path writes and fsyncs everything
//     pending before it answers); a Delete/ShiftByKeys only queues its delete entry and becomes durable with the
//     next flush (observed: with write interval 0 an acknowledged delete is lost by a crash that comes before the
//     next write or close - within what C02 states, since that delete was never synced),
//   - write interval 1 s: everything acknowledged before an idle wait of at least 1.5 s is durable after it
//     (the ticker's flush + fsync ran; fake time only advances while every goroutine is blocked).
//
// Phase B materialises crash images from that log (exactly the first j operations persistent, optionally a torn
// prefix of write j), starts a NEW server incarnation on each image, reads the swamp through the API and checks,
// per key, that the value is the one after some request n with durable(j) <= n <= started(j); then it writes
// again, lets the ticker run, stops gracefully, starts a third incarnation and compares exactly.

func genC02G(seed uint64, tier string) Case {
	r := newRng(seed, "c02g")
	c := Case{Prop: "C02", Seed: seed, Cfg: map[string]int64{"layer": 2}}
	c.Cfg["write_interval"] = int64(r.intn(2))
	c.Cfg["idle"] = []int64{2, 3600, 3600}[r.intn(3)]
	nkeys := 1 + r.intn(5)
	n := 2 + r.intn(22)
	if strings.HasPrefix(tier, "thorough") {
		n = 2 + r.intn(50)
		c.Cfg["thorough"] = 1
	}
	uniq := int64(0)
	for i := 0; i < n; i++ {
		key := int64(r.intn(nkeys))
		switch r.pick(12, 3, 1, 4, 1) {
		case 0:
			uniq++
			size := int64(r.intn(30))
			if r.chance(1, 8) {
				size = int64(200 + r.intn(3000))
			}
			if r.chance(1, 12) {
				size = int64(16000 + r.intn(20000)) // a record that fills a storage block on its own
			}
			c.Ops = append(c.Ops, Op{K: "set", A: []int64{key, uniq, size}})
		case 1:
			c.Ops = append(c.Ops, Op{K: "del", A: []int64{key}})
		case 2:
			c.Ops = append(c.Ops, Op{K: "shift", A: []int64{key}})
		case 3:
			c.Ops = append(c.Ops, Op{K: "wait", A: []int64{[]int64{300, 1600, 1600, 2700, 4500}[r.intn(5)]}})
		default:
			c.Ops = append(c.Ops, Op{K: "restart"})
		}
	}
	c.Sched = &Sched{Seed: r.next()}
	return c
}

type gwEntry struct {
	key           string
	val           string
	del           bool
	invoke, acked int // disk log length at invoke / at acknowledgement (acked = -1: not acknowledged)
}

type gwDur struct{ logAt, n int }

const c02gSwamp = "verif/crash/one"

func c02gVal(uniq, size int64) string {
	return fmt.Sprintf("v%d-", uniq) + strings.Repeat("x", int(size))
}

func runC02G(t *testing.T, c Case) (res Result) {
	wi := c.cfg("write_interval", 1)
	idle := c.cfg("idle", 3600)
	var entries []gwEntry
	var durs []gwDur
	var disk *simdisk.Disk
	hung := ""
	panicked := ""
	// ---- phase A: the history
	out := runSim(t, c.Sched, func() {
		disk = simdisk.New()
		srv := startServer(disk, idle, wi)
		cl := &gwClient{srv: srv, island: 1, timeout: 120 * time.Second}
		cl.register("verif/crash/*", false, idle, wi)
		for _, op := range c.Ops {
			if cl.hung != "" || simrt.Aborted() {
				break
			}
			switch op.K {
			case "set":
				key := fmt.Sprintf("k%d", op.A[0])
				val := c02gVal(op.A[1], op.A[2])
				e := gwEntry{key: key, val: val, invoke: disk.LogLen(), acked: -1}
				resp, err := cl.set(c02gSwamp, []*hydrapb.KeyValuePair{{Key: key, StringVal: &val}}, true, true)
				if err == nil && resp != nil && len(resp.Swamps) == 1 && len(resp.Swamps[0].KeysAndStatuses) == 1 {
					e.acked = disk.LogLen()
				}
				entries = append(entries, e)
			case "del":
				key := fmt.Sprintf("k%d", op.A[0])
				e := gwEntry{key: key, del: true, invoke: disk.LogLen(), acked: -1}
				resp, err := cl.del(c02gSwamp, []string{key})
				if err == nil && resp != nil {
					e.acked = disk.LogLen()
				}
				entries = append(entries, e)
			case "shift":
				key := fmt.Sprintf("k%d", op.A[0])
				e := gwEntry{key: key, del: true, invoke: disk.LogLen(), acked: -1}
				ex, _ := cl.isSwampExist(c02gSwamp)
				if ex {
					if resp, err := cl.shiftByKeys(c02gSwamp, []string{key}); err == nil && resp != nil {
						e.acked = disk.LogLen()
					}
				} else {
					e.acked = disk.LogLen()
				}
				entries = append(entries, e)
			case "wait":
				simrt.Sleep(time.Duration(op.A[0]) * time.Millisecond)
				if op.A[0] >= 1500 && wi > 0 {
					// (with write interval 0 there is no ticker: what a Delete queued stays in memory until the next
					// Set or close flushes it)
					durs = append(durs, gwDur{logAt: disk.LogLen(), n: len(entries)})
				}
			case "restart":
				if !srv.stop(5 * time.Minute) {
					hung = "StopHydra"
					return
				}
				durs = append(durs, gwDur{logAt: disk.LogLen(), n: len(entries)})
				srv = startServer(disk, idle, wi)
				cl = &gwClient{srv: srv, island: 1, timeout: 120 * time.Second}
				cl.register("verif/crash/*", false, idle, wi)
			}
		}
		if cl.hung != "" {
			hung = cl.hung
		}
		if e := srv.logs.find("grpc gateway panic"); e != "" {
			panicked = e
		}
	})
	res.SimNanos = out.stats.SimNanos
	if out.rootPanic != "" {
		return violation("harness_panic", "root: %s", oneLine(out.rootPanic, 500))
	}
	if out.escaped != "" {
		return violation("server_goroutine_panic", "%s", oneLine(out.escaped, 500))
	}
	if panicked != "" {
		return violation("request_panicked", "%s", oneLine(panicked, 400))
	}
	if hung != "" {
		return violation("request_never_returns", "%s did not return in the fault-free history", hung)
	}
	if out.aborted || out.stats.OverBudget {
		return Result{Verdict: "inconclusive", Detail: "scheduler budget exhausted"}
	}
	log := disk.Log()
	// crashes are judged from the first operation that touches the swamp's own files on (the property is about a
	// crash while a swamp is writing; a crash while settings.json is first written is another matter)
	first := len(log)
	for i := range log {
		if strings.Contains(log[i].Path, ".hyd") || strings.Contains(log[i].To, ".hyd") {
			first = i
			break
		}
	}
	type cut struct{ j, torn int }
	var cuts []cut
	if j, ok := c.Cfg["cut"]; ok {
		cuts = []cut{{int(j), int(c.cfg("torn", -1))}}
	} else {
		var all []cut
		for j := first; j <= len(log); j++ {
			all = append(all, cut{j, -1})
			if j < len(log) && log[j].Kind == simdisk.OpWrite {
				n := len(log[j].Data)
				for _, b := range []int{1, n / 2, n - 1} {
					if b > 0 && b < n {
						all = append(all, cut{j, b})
					}
				}
			}
		}
		limit := 24
		if c.cfg("thorough", 0) == 1 {
			limit = 400
		}
		r := newRng(c.Seed, "c02gcuts")
		for len(all) > limit {
			i := r.intn(len(all))
			all[i] = all[len(all)-1]
			all = all[:len(all)-1]
		}
		sort.Slice(all, func(a, b int) bool {
			if all[a].j != all[b].j {
				return all[a].j < all[b].j
			}
			return all[a].torn < all[b].torn
		})
		cuts = all
	}
	stateAt := func(n int) map[string]string {
		m := map[string]string{}
		for i := 0; i < n && i < len(entries); i++ {
			if entries[i].del {
				delete(m, entries[i].key)
			} else {
				m[entries[i].key] = entries[i].val
			}
		}
		return m
	}
	histHash := fnv(c.Seed, len(c.Ops), len(log))
	for _, cu := range cuts {
		j, torn := cu.j, cu.torn
		nDur, nMax := 0, 0
		// image j is a legal outcome of a crash at any moment before the next fsync at or after operation j completes
		// (everything after the last completed fsync can be lost): what the API had made durable by then must be in it
		kCrash := nextFsync(log, j)
		// A request that empties the swamp makes the engine remove the file, and a removal is never followed by an
		// fsync: if it is not part of the image, the file as last synced before it is a legal outcome whatever the API
		// answered afterwards, so the crash is taken to happen before that removal.
		for r := j; r < kCrash; r++ {
			if (log[r].Kind == simdisk.OpRemove || log[r].Kind == simdisk.OpRemoveAll) && strings.Contains(log[r].Path, ".hyd") {
				kCrash = r
				break
			}
		}
		for _, d := range durs {
			if d.logAt <= kCrash && d.n > nDur {
				nDur = d.n
			}
		}
		for i, e := range entries {
			// write interval 0: an acknowledged Set was written and fsynced before it was answered, together with
			// everything that was pending (earlier deletes included). A Delete/Shift itself only queues its delete
			// entry: it becomes durable with the next flush, not with its acknowledgement.
			if wi == 0 && !e.del && e.acked >= 0 && e.acked <= kCrash && i+1 > nDur {
				nDur = i + 1
			}
			if e.invoke <= j {
				nMax = i + 1
			}
		}
		if nMax < nDur {
			nMax = nDur
		}
		var inflight *simdisk.LogOp
		if j < len(log) {
			inflight = &log[j]
		}
		phase := "clean"
		if torn >= 0 {
			phase = "torn_" + tornPhase(inflight)
		} else if j > 0 {
			phase = "after_" + tornPhase(&log[j-1])
		}
		res.count("server_crash_images", 1)
		res.count("server_phase:"+phase, 1)
		res.FPs = append(res.FPs, fnv(histHash, j, torn))
		img := disk.ImageAt(j, torn)
		v := c02gCheckImage(t, c, img, wi, nDur, nMax, stateAt, phase, &res)
		if v != nil {
			v.Detail = fmt.Sprintf("cut=%d/%d torn=%d (wi=%d idle=%d; %d requests durable, %d started): %s [replay with cfg cut=%d torn=%d]", j, len(log), torn, wi, idle, nDur, nMax, v.Detail, j, torn)
			v.Counters = res.Counters
			return *v
		}
	}
	res.Verdict = "ok"
	res.Nontrivial = len(cuts) > 0
	res.Fingerprint = fnv(histHash, len(cuts))
	res.TraceHash = fnv(len(log), len(entries), len(durs), out.stats.Hash)
	res.count("server_histories", 1)
	res.count("server_disk_log_ops", int64(len(log)))
	return res
}

// c02gCheckImage starts a new server incarnation on a crash image and judges what it serves.
func c02gCheckImage(t *testing.T, c Case, img *simdisk.Disk, wi int64, nDur, nMax int, stateAt func(int) map[string]string, phase string, res *Result) *Result {
	var v *Result
	fail := func(class, f string, a ...any) {
		if v == nil {
			x := violation("server_crash_"+phase+"_"+class, f, a...)
			v = &x
		}
	}
	readAll := func(cl *gwClient) (map[string]string, bool) {
		ex, err := cl.isSwampExist(c02gSwamp)
		if cl.hung != "" {
			return nil, false
		}
		if err != nil || !ex {
			return map[string]string{}, true
		}
		resp, err := cl.getAll(c02gSwamp)
		if cl.hung != "" {
			return nil, false
		}
		m := map[string]string{}
		if err != nil || resp == nil {
			return m, true
		}
		for _, tr := range resp.Treasures {
			m[tr.Key] = tr.GetStringVal()
		}
		return m, true
	}
	out := runSim(t, &Sched{Seed: c.Seed ^ 0x5eed}, func() {
		srv := startServer(img, 3600, wi)
		cl := &gwClient{srv: srv, island: 1, timeout: 120 * time.Second}
		cl.register("verif/crash/*", false, 3600, wi)
		got, ok := readAll(cl)
		if !ok {
			fail("request_never_returns", "%s did not return on the recovered server", cl.hung)
			return
		}
		if e := srv.logs.find("grpc gateway panic"); e != "" {
			fail("request_panicked", "a request on the recovered server panicked: %s", oneLine(e, 300))
			return
		}
		// per key: the value after some request n, nDur <= n <= nMax
		keys := map[string]bool{}
		for n := nDur; n <= nMax; n++ {
			for k := range stateAt(n) {
				keys[k] = true
			}
		}
		for k := range got {
			keys[k] = true
		}
		var ks []string
		for k := range keys {
			ks = append(ks, k)
		}
		sort.Strings(ks)
		for _, k := range ks {
			g, present := got[k]
			okv := false
			for n := nDur; n <= nMax && !okv; n++ {
				w, wp := stateAt(n)[k]
				if wp == present && (!present || w == g) {
					okv = true
				}
			}
			if !okv {
				dv, dp := stateAt(nDur)[k]
				cls := "durable_record_missing"
				if present && dp {
					cls = "wrong_value"
				} else if present {
					cls = "record_that_was_never_stored_or_already_deleted_is_back"
				}
				fail(cls, "key %s reads as present=%v %q after the crash; durable state has present=%v %q and no later request up to the crash explains the difference", k, present, shortKey(g), dp, shortKey(dv))
				return
			}
		}
		// writes after the recovery are themselves recoverable
		want := map[string]string{}
		for k, val := range got {
			want[k] = val
		}
		p1, p2 := "post-1", "post-2"
		if r, err := cl.set(c02gSwamp, []*hydrapb.KeyValuePair{{Key: "post-a", StringVal: &p1}, {Key: "k0", StringVal: &p2}}, true, true); err != nil || r == nil {
			if cl.hung != "" {
				fail("request_never_returns", "Set after recovery did not return")
			} else {
				fail("cannot_write_after_recovery", "Set after recovery: %v", err)
			}
			return
		}
		want["post-a"], want["k0"] = p1, p2
		for i := len(ks) - 1; i >= 0; i-- {
			if _, ok := got[ks[i]]; ok && ks[i] != "k0" {
				cl.del(c02gSwamp, []string{ks[i]})
				delete(want, ks[i])
				break
			}
		}
		simrt.Sleep(2500 * time.Millisecond)
		if !srv.stop(5 * time.Minute) {
			fail("graceful_stop_never_returns", "after recovery and new writes")
			return
		}
		srv2 := startServer(img, 3600, wi)
		cl2 := &gwClient{srv: srv2, island: 1, timeout: 120 * time.Second}
		cl2.register("verif/crash/*", false, 3600, wi)
		got2, ok := readAll(cl2)
		if !ok {
			fail("request_never_returns", "%s did not return after the second restart", cl2.hung)
			return
		}
		if fmt.Sprint(sortedKV(got2)) != fmt.Sprint(sortedKV(want)) {
			fail("writes_after_recovery_not_recoverable", "after recovery, new writes, a flush interval, graceful stop and restart the swamp holds %v, expected %v", c02gShort(got2), c02gShort(want))
			return
		}
		srv2.stop(5 * time.Minute)
		res.count("server_post_recovery_rounds", 1)
	})
	if v != nil {
		return v
	}
	if out.rootPanic != "" {
		x := violation("server_crash_"+phase+"_harness_or_engine_panic", "%s", oneLine(out.rootPanic, 500))
		return &x
	}
	if out.escaped != "" {
		x := violation("server_crash_"+phase+"_server_goroutine_panic", "the recovered server panicked: %s", oneLine(out.escaped, 500))
		return &x
	}
	return nil
}

func c02gShort(m map[string]string) []string {
	var out []string
	for _, kv := range sortedKV(m) {
		out = append(out, shortKey(kv))
	}
	return out
}
