package zzharness

import (
	"context"
	"fmt"
	"testing"

	"github.com/hydraide/hydraide/app/core/hydra/swamp/chronicler"
	v2 "github.com/hydraide/hydraide/app/core/hydra/swamp/chronicler/v2"
	"github.com/hydraide/hydraide/app/core/hydra/swamp/treasure"
	"github.com/hydraide/hydraide/app/zzsim/simrt"
)

type ctxT = context.Context

// C01 — the storage log replays to the last-writer-wins state.
//
// Layer 0 drives v2.FileWriter / v2.FileReader directly; layer 1 drives the
// chronicler (Write of treasures, Close, re-open, Load into a beacon). The
// model is a map from key to last accepted value. The name stored in the file
// (C29) is checked in the same runs.

var storageReal = []string{"chronicler V2 (Write/Load/Close/Sync/ForceCompaction)", "v2.FileWriter", "v2.FileReader", "v2.WriteBuffer/ParseBlock", "v2.Compactor", "treasure gob codec", "beacon", "snappy compressor"}
var storageStub = []string{"OS file system (simdisk, in memory)", "no scheduler: single goroutine"}

func init() {
	register(&Property{
		ID:    "C01",
		Level: "exploration",
		Rule: "cases = seeded histories of put/delete/flush/sync/reopen over 1..12 keys (lengths 1..70000 bytes, binary and printable), payloads 0..2MB, " +
			"block size 64B..1MiB, layer 0 (v2 writer/reader) or 1 (chronicler + beacon); non-trivial = at least 2 sessions or a multi-block file; distinct = hash of (layer, block size class, op-kind sequence, key-length classes, final state)",
		Gen:         genC01,
		Run:         runC01,
		Assumptions: []string{"simdisk implements POSIX-like semantics for the calls the engine makes", "fault-free disk in this property (faults: C02, C25)"},
		Real:        storageReal,
		Stub:        storageStub,
	})
}

var blockSizes = []int64{64, 200, 1024, 4096, 16384, 65536, 1 << 20}

func genKeySpec(r *rng, id int64, tier string) (kind, n int64) {
	kind = int64(r.intn(2))
	switch r.pick(50, 20, 8, 4, 4, 4, 3, 3) {
	case 0:
		n = 1 + int64(r.intn(24))
	case 1:
		n = 25 + int64(r.intn(300))
	case 2:
		n = 1
	case 3:
		n = 65535
	case 4:
		n = 65536
	case 5:
		n = 65536 + 1 + int64(r.intn(4464))
	case 6:
		n = 255 + int64(r.intn(3))
	default:
		n = 1000 + int64(r.intn(60000))
	}
	return
}

func genStorageOps(r *rng, tier string, maxOps int, withFaultFree bool) (ops []Op, nkeys int) {
	nkeys = 1 + r.intn(12)
	type ks struct{ kind, n int64 }
	keys := make([]ks, nkeys)
	longKeys := r.chance(1, 4)
	for i := range keys {
		k, n := genKeySpec(r, int64(i), tier)
		if !longKeys && n > 400 {
			n = 1 + int64(r.intn(40))
		}
		keys[i] = ks{k, n}
	}
	nops := 1 + r.intn(maxOps)
	if r.chance(1, 3) {
		nops = 1 + r.intn(8)
	}
	bigPayload := r.chance(1, 12)
	for i := 0; i < nops; i++ {
		ki := r.intn(nkeys)
		switch r.pick(60, 18, 6, 6, 10) {
		case 0:
			var plen int64
			switch r.pick(10, 50, 25, 10, 5) {
			case 0:
				plen = 0
			case 1:
				plen = 1 + int64(r.intn(64))
			case 2:
				plen = 64 + int64(r.intn(2000))
			case 3:
				plen = 2000 + int64(r.intn(60000))
			default:
				if bigPayload {
					plen = 100000 + int64(r.intn(2_000_000))
				} else {
					plen = int64(r.intn(300))
				}
			}
			ops = append(ops, Op{K: "put", A: []int64{keys[ki].kind, keys[ki].n, int64(ki), plen, int64(r.intn(1 << 20))}})
		case 1:
			ops = append(ops, Op{K: "del", A: []int64{keys[ki].kind, keys[ki].n, int64(ki)}})
		case 2:
			ops = append(ops, Op{K: "flush"})
		case 3:
			ops = append(ops, Op{K: "sync"})
		default:
			ops = append(ops, Op{K: "reopen"})
		}
	}
	return
}

func genC01(seed uint64, tier string) Case {
	r := newRng(seed, "c01")
	c := Case{Prop: "C01", Seed: seed, Cfg: map[string]int64{}}
	c.Cfg["layer"] = int64(r.intn(2))
	c.Cfg["block"] = blockSizes[r.intn(len(blockSizes))]
	c.Cfg["thr"] = []int64{30, 10, 60, 95}[r.intn(4)] // compaction threshold in percent (layer 1)
	maxOps := 60
	if tier == "thorough" {
		maxOps = 400
	}
	c.Ops, _ = genStorageOps(r, tier, maxOps, true)
	// a fraction of cases: many tiny entries into a huge block (entry count per block)
	if r.chance(1, 40) && c.Cfg["layer"] == 0 {
		c.Cfg["block"] = 1 << 20
		c.Cfg["tiny"] = 66000 + int64(r.intn(3000))
	}
	return c
}

const c01Path = "/data/sw/ab/swamp"

// unencodable classifies inputs the file format cannot represent.
func unencodable(key string) string {
	switch {
	case key == "":
		return "empty_key"
	case len(key) > 65535:
		return "key_over_65535_bytes"
	}
	return ""
}

func runC01(t *testing.T, c Case) (res Result) {
	d := newDisk()
	logs := captureLogs()
	simrt.SetPassSeed(c.Seed)
	defer func() {
		if r := recover(); r != nil {
			res = violation("panic", "engine panicked: %v", r)
		}
	}()
	layer := c.cfg("layer", 0)
	block := int(c.cfg("block", 16384))
	thr := float64(c.cfg("thr", 30)) / 100
	name := "verif/c01/swamp"
	model := map[string][]byte{}
	acceptedBad := "" // first accepted unencodable input
	sessions := 1
	live := 0 // what the swamp's index would report while Write runs
	var kinds []string
	keyClasses := map[string]bool{}

	// layer 0 state
	var w *v2.FileWriter
	// layer 1 state
	var ch chronicler.Chronicler
	hyd := c01Path + ".hyd"
	open := func() error {
		if layer == 0 {
			var err error
			d.MkdirAll("/data/sw/ab")
			w, err = v2.NewFileWriterWithName(hyd, block, name)
			return err
		}
		ch = chronicler.NewV2WithConfig(c01Path, 2, block, thr)
		ch.CreateDirectoryIfNotExists()
		ch.RegisterLiveCountFunction(func() int { return live })
		return nil
	}
	closeAll := func() error {
		if layer == 0 {
			if w == nil {
				return nil
			}
			err := w.Close()
			w = nil
			return err
		}
		err := ch.Close()
		ch = nil
		return err
	}
	check := func(when string) *Result {
		var got map[string][]byte
		var err error
		if !d.Exists(hyd) {
			got = map[string][]byte{}
		} else if layer == 0 {
			got, _, err = rawLoad(hyd)
		} else {
			got, err = loadViaChronicler(c01Path, block, thr, "")
			if e := logs.find("cannot load index"); e != "" {
				err = fmt.Errorf("%s", e)
			} else if e := logs.find("cannot open swamp file"); e != "" {
				err = fmt.Errorf("%s", e)
			} else if e := logs.find("cannot decode treasure"); e != "" {
				err = fmt.Errorf("%s", e)
			}
		}
		if err != nil {
			cl := "unreadable_file"
			if acceptedBad != "" {
				cl = "accepted_" + acceptedBad + "_then_unreadable"
			} else if c.cfg("tiny", 0) > 65535 {
				cl = "over_65535_entries_in_block_then_unreadable"
			}
			r := violation(cl, "%s: file written by the engine does not load: %v (model has %d keys)", when, err, len(model))
			return &r
		}
		if cl, det := compareState(got, model); cl != "" {
			if acceptedBad != "" {
				cl = "accepted_" + acceptedBad + "_then_" + cl
			} else if c.cfg("tiny", 0) > 65535 {
				cl = "over_65535_entries_in_block_then_" + cl
			}
			r := violation(cl, "%s: %s", when, det)
			return &r
		}
		// C29 rides along: the fast name lookup returns the writer's name
		if d.Exists(hyd) && layer == 0 {
			if n, err := v2.ReadSwampName(hyd); err != nil || n != name {
				r := violation("name_lookup_mismatch", "%s: ReadSwampName=%q err=%v want %q", when, n, err, name)
				return &r
			}
		}
		return nil
	}
	if err := open(); err != nil {
		return violation("open_failed", "cannot open writer: %v", err)
	}
	multiBlock := false
	put := func(key string, val []byte, del bool) {
		keyClasses[fmt.Sprint(lenClass(len(key)))] = true
		bad := unencodable(key)
		if layer == 0 {
			e := v2.Entry{Operation: v2.OpInsert, Key: key, Data: val}
			if _, ok := model[key]; ok {
				e.Operation = v2.OpUpdate
			}
			if del {
				e.Operation, e.Data = v2.OpDelete, nil
			}
			if err := w.WriteEntry(e); err != nil {
				res.count("rejected_writes", 1)
				return
			}
		} else {
			var tr treasure.Treasure
			if del {
				tr = mkDeleted(key)
			} else {
				tr = mkTreasure(key, val)
			}
			before := logs.errors
			_, existed := model[key]
			live = len(model)
			if del && existed {
				live--
			} else if !del && !existed {
				live++
			}
			ch.Write([]treasure.Treasure{tr})
			if logs.errors > before && (logs.has("cannot write entry") || logs.has("cannot encode treasure") || logs.has("cannot initialize swamp file writer")) {
				res.count("rejected_writes", 1)
				logs.records = nil
				return
			}
		}
		if bad != "" && acceptedBad == "" {
			acceptedBad = bad
		}
		if del {
			delete(model, key)
		} else {
			model[key] = val
		}
	}
	for i, op := range c.Ops {
		kinds = append(kinds, op.K)
		switch op.K {
		case "put":
			put(genKey(op.A[0], op.A[1], op.A[2]), genPayload(op.A[3], op.A[4]), false)
		case "del":
			put(genKey(op.A[0], op.A[1], op.A[2]), nil, true)
		case "flush":
			if layer == 0 {
				if err := w.Flush(); err != nil {
					return violation("flush_error", "op %d: Flush: %v", i, err)
				}
			}
		case "sync":
			var err error
			if layer == 0 {
				err = w.Sync()
			} else {
				err = ch.Sync()
			}
			if err != nil {
				return violation("sync_error", "op %d: Sync: %v", i, err)
			}
		case "reopen":
			if err := closeAll(); err != nil {
				return violation("close_error", "op %d: Close: %v", i, err)
			}
			if r := check(fmt.Sprintf("after session %d", sessions)); r != nil {
				r.Counters = res.Counters
				return *r
			}
			sessions++
			if err := open(); err != nil {
				return violation("open_failed", "op %d: reopen: %v", i, err)
			}
		}
	}
	if n := c.cfg("tiny", 0); n > 0 && layer == 0 {
		for i := int64(0); i < n; i++ {
			k := fmt.Sprintf("t%d", i%50)
			put(k, nil, false)
			model[k] = nil
		}
		res.count("tiny_entry_floods", 1)
	}
	if err := closeAll(); err != nil {
		return violation("close_error", "final Close: %v", err)
	}
	if r := check("at end"); r != nil {
		r.Counters = res.Counters
		return *r
	}
	st := d.Stats()
	if st.Writes > 6 {
		multiBlock = true
	}
	res.Verdict = "ok"
	res.Nontrivial = sessions >= 2 || multiBlock
	res.Fingerprint = fnv(layer, block, kinds, keyClasses, stateHash(model))
	res.TraceHash = fnv(st.Ops, st.BytesWritten, stateHash(model))
	res.States = []uint64{stateHash(model)}
	res.count("sessions", int64(sessions))
	res.count("disk_writes", int64(st.Writes))
	res.count("disk_fsyncs", int64(st.Fsyncs))
	res.count("disk_renames(compactions)", int64(st.Renames))
	return res
}

func lenClass(n int) int {
	switch {
	case n == 0:
		return 0
	case n < 32:
		return 1
	case n < 400:
		return 2
	case n < 65535:
		return 3
	case n == 65535:
		return 4
	default:
		return 5
	}
}
