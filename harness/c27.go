package zzharness

import (
	"context"
	"fmt"
	"sort"
	"strings"
	"testing"
	"time"

	"github.com/hydraide/hydraide/app/server/gateway"
	"github.com/hydraide/hydraide/app/zzsim/simdisk"
	"github.com/hydraide/hydraide/app/zzsim/simrt"
	hydraidego "github.com/hydraide/hydraide/sdk/go/hydraidego/v3"
	sdkclient "github.com/hydraide/hydraide/sdk/go/hydraidego/v3/client"
	hydrapb "github.com/hydraide/hydraide/sdk/go/hydraidego/v3/hydraidepbgo"
	"github.com/hydraide/hydraide/sdk/go/hydraidego/v3/hydrex"
	sdkname "github.com/hydraide/hydraide/sdk/go/hydraidego/v3/name"
	"google.golang.org/grpc"
)

// C27 — the Hydrex reverse index stays consistent with the core data.
//
// The real SDK (hydraidego + hydrex) runs against the in-process server through an adapter that implements
// the gRPC client interface by calling the gateway handlers directly. Histories of Save (with additions,
// removals and changed values) and Destroy over a few index names, domains and keys are interleaved with idle
// evictions (Hydrex registers its swamps with a 1 s idle close and a 1 s write interval) and restarts on the
// simulated clock and disk.

func init() {
	register(&Property{
		ID:    "C27",
		Level: "exploration",
		Rule: "cases = <=14 steps over 2 index names x 3 domains x 4 keys: Save(domain, subset of keys with seeded values), Destroy(domain), idle (swamps close after 1 s), restart; " +
			"oracle after every step and at the end (after restart): GetCoreData(index, domain) == the items of the last Save (keys and values), GetIndexData(index, key) == the domains whose last saved items contain the key; " +
			"non-trivial = at least one Save removed a key or followed a Destroy or an eviction; distinct = hash of the history",
		Gen: genC27,
		Run: runC27,
		Sim: true,
		Assumptions: []string{"sequential callers (the property quantifies over sequences); concurrent Saves emptying and filling one key swamp hit the auto-destroy race recorded under C16"},
		Real:        append([]string{"sdk hydrex.Save/GetCoreData/GetIndexData/Destroy", "sdk hydraidego Catalog* / Destroy / RegisterSwamp (model conversion, request building)"}, gwReal...),
		Stub:        append([]string{"gRPC client connection (adapter calling the gateway handlers in process)"}, gwStub...),
	})
}

// ops: save A=[index, domain, keyMask, valueSeed] | destroy A=[index, domain] | par A=[index, d1, mask1, d2, mask2, valueSeed] | idle | restart
func genC27(seed uint64, tier string) Case {
	r := newRng(seed, "c27")
	c := Case{Prop: "C27", Seed: seed, Cfg: map[string]int64{}}
	n := 2 + r.intn(13)
	for i := 0; i < n; i++ {
		// (the concurrent "par" step is not generated: the property quantifies over sequences, and two Saves that
		// empty and fill the same key swamp at once run into the auto-destroy race recorded under C16)
		switch r.pick(10, 3, 0, 3, 1) {
		case 0:
			c.Ops = append(c.Ops, Op{K: "save", A: []int64{int64(r.intn(2)), int64(r.intn(3)), int64(r.intn(16)), int64(r.intn(3))}})
		case 1:
			c.Ops = append(c.Ops, Op{K: "destroy", A: []int64{int64(r.intn(2)), int64(r.intn(3))}})
		case 2:
			d1 := int64(r.intn(3))
			d2 := (d1 + 1 + int64(r.intn(2))) % 3
			c.Ops = append(c.Ops, Op{K: "par", A: []int64{int64(r.intn(2)), d1, int64(r.intn(16)), d2, int64(r.intn(16)), int64(r.intn(3))}})
		case 3:
			c.Ops = append(c.Ops, Op{K: "idle"})
		default:
			c.Ops = append(c.Ops, Op{K: "restart"})
		}
	}
	c.Sched = genSched(r)
	return c
}

// inprocService implements the generated gRPC client interface on top of the gateway handlers. Only the calls
// the SDK functions under test issue are implemented; anything else panics on the nil embedded interface.
type inprocService struct {
	hydrapb.HydraideServiceClient
	gw func() gateway.Gateway
}

func (s *inprocService) Set(ctx context.Context, in *hydrapb.SetRequest, _ ...grpc.CallOption) (*hydrapb.SetResponse, error) {
	return s.gw().Set(ctx, in)
}
func (s *inprocService) Get(ctx context.Context, in *hydrapb.GetRequest, _ ...grpc.CallOption) (*hydrapb.GetResponse, error) {
	return s.gw().Get(ctx, in)
}
func (s *inprocService) GetAll(ctx context.Context, in *hydrapb.GetAllRequest, _ ...grpc.CallOption) (*hydrapb.GetAllResponse, error) {
	return s.gw().GetAll(ctx, in)
}
func (s *inprocService) GetByIndex(ctx context.Context, in *hydrapb.GetByIndexRequest, _ ...grpc.CallOption) (*hydrapb.GetByIndexResponse, error) {
	return s.gw().GetByIndex(ctx, in)
}
func (s *inprocService) GetByKeys(ctx context.Context, in *hydrapb.GetByKeysRequest, _ ...grpc.CallOption) (*hydrapb.GetByKeysResponse, error) {
	return s.gw().GetByKeys(ctx, in)
}
func (s *inprocService) Delete(ctx context.Context, in *hydrapb.DeleteRequest, _ ...grpc.CallOption) (*hydrapb.DeleteResponse, error) {
	return s.gw().Delete(ctx, in)
}
func (s *inprocService) Destroy(ctx context.Context, in *hydrapb.DestroyRequest, _ ...grpc.CallOption) (*hydrapb.DestroyResponse, error) {
	return s.gw().Destroy(ctx, in)
}
func (s *inprocService) Count(ctx context.Context, in *hydrapb.CountRequest, _ ...grpc.CallOption) (*hydrapb.CountResponse, error) {
	return s.gw().Count(ctx, in)
}
func (s *inprocService) IsSwampExist(ctx context.Context, in *hydrapb.IsSwampExistRequest, _ ...grpc.CallOption) (*hydrapb.IsSwampExistResponse, error) {
	return s.gw().IsSwampExist(ctx, in)
}
func (s *inprocService) IsKeyExist(ctx context.Context, in *hydrapb.IsKeyExistRequest, _ ...grpc.CallOption) (*hydrapb.IsKeyExistResponse, error) {
	return s.gw().IsKeyExist(ctx, in)
}
func (s *inprocService) RegisterSwamp(ctx context.Context, in *hydrapb.RegisterSwampRequest, _ ...grpc.CallOption) (*hydrapb.RegisterSwampResponse, error) {
	return s.gw().RegisterSwamp(ctx, in)
}
func (s *inprocService) DeRegisterSwamp(ctx context.Context, in *hydrapb.DeRegisterSwampRequest, _ ...grpc.CallOption) (*hydrapb.DeRegisterSwampResponse, error) {
	return s.gw().DeRegisterSwamp(ctx, in)
}

type inprocConn struct{ svc *inprocService }

func (c *inprocConn) Connect(bool) error { return nil }
func (c *inprocConn) CloseConnection()   {}
func (c *inprocConn) GetServiceClient(sdkname.Name) hydrapb.HydraideServiceClient {
	return c.svc
}
func (c *inprocConn) GetServiceClientAndHost(sdkname.Name) *sdkclient.ServiceClient {
	return &sdkclient.ServiceClient{GrpcClient: c.svc, Host: "inproc"}
}
func (c *inprocConn) GetUniqueServiceClients() []hydrapb.HydraideServiceClient {
	return []hydrapb.HydraideServiceClient{c.svc}
}
func (c *inprocConn) GetAllIslands() uint64 { return 1000 }

func runC27(t *testing.T, c Case) (res Result) {
	indexes := []string{"tags", "refs"}
	domains := []string{"d0", "d1", "d2"}
	keys := []string{"alpha", "beta", "gamma", "delta"}
	var v *Result
	interesting := false
	out := runSim(t, c.Sched, func() {
		disk := simdisk.New()
		srv := startServer(disk, 3600, 1)
		svc := &inprocService{gw: func() gateway.Gateway { return srv.gw }}
		sdk := hydraidego.New(&inprocConn{svc: svc})
		cl := &gwClient{srv: srv, island: 1, timeout: 10 * time.Minute}
		var hx hydrex.Hydrex
		if !cl.call("hydrex.New", func() { hx = hydrex.New(sdk) }) {
			r := violation("request_never_returns", "hydrex.New (pattern registration) did not return")
			v = &r
			return
		}
		model := map[string]map[string]map[string]string{} // index -> domain -> key -> value
		for _, ix := range indexes {
			model[ix] = map[string]map[string]string{}
		}
		items := func(mask, vs int64, dom string) map[string]*hydrex.CoreData {
			m := map[string]*hydrex.CoreData{}
			for i, k := range keys {
				if mask&(1<<i) != 0 {
					m[k] = &hydrex.CoreData{Key: k, Value: fmt.Sprintf("v%d-%s-%s", vs, dom, k)}
				}
			}
			return m
		}
		apply := func(ix, dom string, it map[string]*hydrex.CoreData) {
			old := model[ix][dom]
			nm := map[string]string{}
			for k, d := range it {
				nm[k] = d.Value
			}
			for k := range old {
				if _, ok := nm[k]; !ok {
					interesting = true
				}
			}
			model[ix][dom] = nm
		}
		check := func(step int, when string) bool {
			for _, ix := range indexes {
				for _, dom := range domains {
					var got []*hydrex.CoreData
					if !cl.call("GetCoreData", func() { got = hx.GetCoreData(context.Background(), ix, dom) }) {
						return false
					}
					g := map[string]string{}
					for _, d := range got {
						if _, dup := g[d.Key]; dup {
							r := violation("core_data_lists_a_key_twice", "step %d (%s): GetCoreData(%s,%s) lists %q twice", step, when, ix, dom, d.Key)
							v = &r
							return false
						}
						g[d.Key] = d.Value
					}
					want := model[ix][dom]
					if fmt.Sprint(sortedKV(g)) != fmt.Sprint(sortedKV(want)) {
						cls := "core_data_differs_from_last_save"
						if fmt.Sprint(sortedStrKeys(g)) == fmt.Sprint(sortedStrKeys(want)) {
							cls = "core_data_value_is_not_the_last_saved_one"
						}
						r := violation(cls, "step %d (%s): GetCoreData(%s,%s) = %v, last saved items = %v", step, when, ix, dom, sortedKV(g), sortedKV(want))
						v = &r
						return false
					}
				}
				for _, k := range keys {
					var got []*hydrex.IndexedData
					if !cl.call("GetIndexData", func() { got = hx.GetIndexData(context.Background(), ix, k) }) {
						return false
					}
					var gd, wd []string
					for _, d := range got {
						gd = append(gd, d.Domain)
					}
					for _, dom := range domains {
						if _, ok := model[ix][dom][k]; ok {
							wd = append(wd, dom)
						}
					}
					sort.Strings(gd)
					sort.Strings(wd)
					if fmt.Sprint(gd) != fmt.Sprint(wd) {
						r := violation("index_disagrees_with_core_data", "step %d (%s): GetIndexData(%s,%s) = %v, domains whose items contain the key = %v", step, when, ix, k, gd, wd)
						v = &r
						return false
					}
				}
			}
			return true
		}
		afterGap := false
		for i, op := range c.Ops {
			if v != nil || cl.hung != "" || simrt.Aborted() {
				break
			}
			switch op.K {
			case "save":
				ix, dom := indexes[op.A[0]], domains[op.A[1]]
				it := items(op.A[2], op.A[3], dom)
				if afterGap && len(model[ix][dom]) > 0 {
					interesting = true
				}
				cl.call("Save", func() { hx.Save(context.Background(), ix, dom, it) })
				apply(ix, dom, it)
			case "destroy":
				ix, dom := indexes[op.A[0]], domains[op.A[1]]
				if len(model[ix][dom]) > 0 {
					interesting = true
				}
				cl.call("Destroy", func() { hx.Destroy(context.Background(), ix, dom) })
				model[ix][dom] = map[string]string{}
			case "par":
				ix := indexes[op.A[0]]
				d1, d2 := domains[op.A[1]], domains[op.A[3]]
				i1, i2 := items(op.A[2], op.A[5], d1), items(op.A[4], op.A[5], d2)
				id1 := simrt.GoID(func() { hx.Save(context.Background(), ix, d1, i1) })
				id2 := simrt.GoID(func() { hx.Save(context.Background(), ix, d2, i2) })
				if !simrt.JoinIDs([]int32{id1, id2}, 10*time.Minute) {
					cl.hung = "concurrent Save"
					break
				}
				apply(ix, d1, i1)
				apply(ix, d2, i2)
			case "idle":
				simrt.Sleep(5 * time.Second)
				afterGap = true
				continue
			case "restart":
				if !srv.stop(5 * time.Minute) {
					r := violation("graceful_stop_never_returns", "step %d", i)
					v = &r
					return
				}
				srv = startServer(disk, 3600, 1)
				cl = &gwClient{srv: srv, island: 1, timeout: 10 * time.Minute}
				cl.call("hydrex.New", func() { hx = hydrex.New(sdk) })
				afterGap = true
				continue
			}
			if cl.hung != "" {
				break
			}
			if !check(i, op.K) {
				break
			}
		}
		if v == nil && cl.hung == "" {
			// everything must survive eviction and restart
			simrt.Sleep(5 * time.Second)
			if check(len(c.Ops), "after idle eviction") {
				if !srv.stop(5 * time.Minute) {
					r := violation("graceful_stop_never_returns", "at the end")
					v = &r
					return
				}
				srv = startServer(disk, 3600, 1)
				cl = &gwClient{srv: srv, island: 1, timeout: 10 * time.Minute}
				cl.call("hydrex.New", func() { hx = hydrex.New(sdk) })
				check(len(c.Ops), "after restart")
			}
		}
		if cl.hung != "" && v == nil {
			r := violation("request_never_returns", "%s had not returned after 10 simulated minutes", cl.hung)
			v = &r
		}
		if e := srv.logs.find("grpc gateway panic"); e != "" && v == nil {
			r := violation("request_panicked", "a handler panicked: %s", oneLine(e, 400))
			v = &r
		}
		srv.stop(5 * time.Minute)
	})
	res.SimNanos = out.stats.SimNanos
	res.TraceHash = out.stats.Hash
	res.PreemptSteps = out.stats.PreemptSteps
	res.count("sched_steps", out.stats.Steps)
	fail := func(x Result) Result {
		x.TraceHash, x.PreemptSteps, x.SimNanos, x.Counters = res.TraceHash, res.PreemptSteps, res.SimNanos, res.Counters
		return x
	}
	if out.rootPanic != "" {
		return fail(violation("harness_panic", "root: %s", oneLine(out.rootPanic, 600)))
	}
	if out.escaped != "" {
		return fail(violation("server_goroutine_panic", "a goroutine panicked: %s", oneLine(out.escaped, 600)))
	}
	if out.aborted || out.stats.OverBudget {
		return Result{Verdict: "inconclusive", Detail: "scheduler budget exhausted"}
	}
	if v != nil {
		return fail(*v)
	}
	res.Verdict = "ok"
	res.Nontrivial = interesting
	var sb strings.Builder
	for _, op := range c.Ops {
		fmt.Fprintf(&sb, "%s%v;", op.K, op.A)
	}
	res.Fingerprint = fnv(sb.String())
	return res
}

func sortedStrKeys(m map[string]string) []string {
	var ks []string
	for k := range m {
		ks = append(ks, k)
	}
	sort.Strings(ks)
	return ks
}

func sortedKV(m map[string]string) []string {
	var out []string
	for _, k := range sortedStrKeys(m) {
		out = append(out, k+"="+m[k])
	}
	return out
}
