package zzharness

import (
	"fmt"
	"os"
	"runtime"
	"sort"
	"testing"
	"time"

	hydrapb "github.com/hydraide/hydraide/sdk/go/hydraidego/v3/hydraidepbgo"
	"github.com/hydraide/hydraide/app/zzsim/simdisk"
	"github.com/hydraide/hydraide/app/zzsim/simrt"
	"github.com/vmihailenco/msgpack/v5"
	"google.golang.org/protobuf/types/known/timestamppb"
)

// C11 — claims hand out disjoint, matching, oldest-first records.
// C12 — cap-bearing operations never push the match count above the cap.
//
// One engine: a swamp of msgpack-bodied records {grp, state, ver, owner} with seeded expiry instants, and
// client scripts of claimers (ShiftExpiredTreasures, ShiftMatchingTreasures, PatchExpiredTreasures, with
// filters, windows, HowMany/MaxResults and optionally a Cap) and mutators (explicit-key PatchTreasures that
// flips the state or slides the expiry, Delete, creation of new records) running as goroutines under the
// seeded scheduler. Keys are never re-created, so every record can be removed at most once.

var c11States = []string{"idle", "claimed", "busy"}

func init() {
	register(&Property{
		ID:    "C11",
		Level: "exploration",
		Rule: "cases = 4..14 records (seeded expiry: none / past / future, 2 groups, 3 states) x 2..4 clients x <=5 operations each: ShiftExpired, ShiftMatching (key/creation/expiration index, asc/desc, state and group filters in both leg orders, expired-only window, HowMany, MaxResults), PatchExpired (filters, HowMany, 1h lease, sets state and a unique owner) racing explicit-key patches of the filtered field, expiry slides, deletes and new records (40% of the cases have claimers only); seeded preemption + stalls; " +
			"oracle: per reply count <= HowMany/MaxResults, no key twice, returned record satisfies expiry / filters / window as returned, index order among untouched keys; across replies no record removed twice (shift, shift, delete), two patch-claims of one record only around a re-expiring change, a record both patch-claimed and shifted was shifted as patched, nothing claimed after its acknowledged delete; final state (before and after restart) has no removed record and every other one; claimers-only cases: nothing eligible is skipped and nothing younger is taken while an older eligible record stays unclaimed; " +
			"non-trivial = two claims overlapped in time and something was claimed; distinct = hash of the context-switch trace",
		Gen: func(seed uint64, tier string) Case { return genC11(seed, tier, "C11") },
		Run: runC11,
		Sim: true,
		Assumptions: []string{"the moment of the claim lies inside the request's interval; a returned record is judged as returned (clone taken at the claim)", "keys are never re-created by the workload", "leases (1 h) outlast the simulated run, checked per run"},
		Real:        append([]string{"gateway.ShiftExpiredTreasures / ShiftMatchingTreasures / PatchExpiredTreasures / PatchTreasures / Delete", "beacon.ShiftExpired / ShiftMatching / SelectExpiredForPatchWithCap / ReindexExpiration", "bucket planner + candidate lookup", "msgpackpatch"}, gwReal...),
		Stub:        gwStub,
	})
	register(&Property{
		ID:    "C12",
		Level: "exploration",
		Rule: "cases = 4..14 records, cap filter state==claimed with MaxMatching 1..4 (initial matching count <= max), 1..4 clients x <=5 operations: cap-bearing PatchExpired (claims), cap-bearing explicit-key PatchTreasures batches (1..3 keys, some already matching), cap-bearing ShiftMatching, and un-capped releases (state back to idle), deletes, expiry slides; seeded preemption + stalls; " +
			"oracle: after the run (before and after restart) the number of records with state==claimed <= MaxMatching; single-client cases additionally follow a reference model exactly (which keys are patched / rejected with CAP_EXCEEDED, state after every operation), so budget is consumed only by not-matching -> matching transitions; " +
			"non-trivial = a cap-bearing operation ran while another was in progress, or (single client) a cap bounded an operation; distinct = hash of the context-switch trace",
		Gen: func(seed uint64, tier string) Case { return genC11(seed, tier, "C12") },
		Run: runC11,
		Sim: true,
		Assumptions: []string{"every operation of the workload that can move a record into the cap's filter carries the cap (the property's premise)", "CapReached is not judged"},
		Real:        append([]string{"gateway.PatchTreasures / PatchExpiredTreasures / ShiftMatchingTreasures with Cap", "gateway.capPreCount", "swamp.PatchFields four-cell rule", "swamp.PatchExpired capMu", "beacon.ShiftMatching / SelectExpiredForPatchWithCap budget"}, gwReal...),
		Stub:        gwStub,
	})
}

// ops (C=-1: set-up by the root client, in order)
//   rec        A=[i, expOffMs(0 none, <0 expired, >0 future), grp, state]
// ops (C>=0: client scripts), A[0] = wait before the op in ms
//   shiftexp   A=[wait, howMany]
//   shiftmatch A=[wait, howMany, idx(0 key,1 creation,2 expiration), desc, fstate(-1 none), fgrp(-1 none), window(1: ToTime=now on the expiration index), maxResults, capMax(0 none), legOrder]
//   patchexp   A=[wait, howMany, fstate, fgrp, capMax, legOrder]
//   setstate   A=[wait, nkeys, state, capMax, k1, k2, k3]
//   slide      A=[wait, key, offMs(0 clears)]
//   del        A=[wait, key]
//   add        A=[wait, idx, expOffMs, grp]
//   capadd     A=[wait, idx, grp, seedState, capMax]  (cap-bearing PatchTreasures that creates the record from a seed body)
func genC11(seed uint64, tier string, prop string) Case {
	r := newRng(seed, "c11"+prop)
	c := Case{Prop: prop, Seed: seed, Cfg: map[string]int64{}}
	c.Cfg["write_interval"] = int64(r.intn(2))
	n := 4 + r.intn(11)
	capMax := int64(0)
	if prop == "C12" {
		capMax = int64(1 + r.intn(4))
		c.Cfg["cap"] = capMax
	}
	claimed := int64(0)
	used := map[int64]bool{}
	for i := 0; i < n; i++ {
		var off int64
		switch r.pick(2, 5, 2) {
		case 1:
			for {
				off = -int64(1000 + r.intn(600000))
				if !used[off] {
					break
				}
			}
		case 2:
			for {
				off = int64(7200000 + r.intn(600000))
				if !used[off] {
					break
				}
			}
		}
		used[off] = true
		st := int64(r.pick(6, 2, 1))
		if prop == "C12" && st == 1 {
			if claimed >= capMax {
				st = 0
			} else {
				claimed++
			}
		}
		c.Ops = append(c.Ops, Op{C: -1, K: "rec", A: []int64{int64(i), off, int64(r.intn(2)), st}})
	}
	static := prop == "C11" && r.chance(2, 5)
	if static {
		c.Cfg["static"] = 1
	}
	ncl := 2 + r.intn(3)
	if prop == "C12" && r.chance(1, 3) {
		ncl = 1
	}
	addIdx := int64(0)
	filt := func() (int64, int64) {
		fs, fg := int64(-1), int64(-1)
		if r.chance(1, 2) {
			fs = int64(r.pick(4, 1, 1, 2, 1))
		}
		if r.chance(1, 3) {
			fg = int64(r.intn(2))
		}
		return fs, fg
	}
	hm := func() int64 { return []int64{0, 1, 1, 2, 3, 5}[r.intn(6)] }
	wait := func() int64 { return []int64{0, 0, 0, 1, 2, 5}[r.intn(6)] }
	for cl := 0; cl < ncl; cl++ {
		nops := 1 + r.intn(5)
		claimer := r.chance(3, 5) || static
		for j := 0; j < nops; j++ {
			var op Op
			if prop == "C12" {
				switch r.pick(4, 4, 1, 2, 1, 1, 1, 2) {
				case 7:
					addIdx++
					op = Op{C: cl, K: "capadd", A: []int64{wait(), 100 + addIdx, int64(r.intn(2)), int64(r.pick(1, 2)), capMax}}
					c.Ops = append(c.Ops, op)
					continue
				case 0:
					fs, fg := filt()
					if fs == 1 {
						fs = 0
					}
					op = Op{C: cl, K: "patchexp", A: []int64{wait(), hm(), fs, fg, capMax, int64(r.intn(2))}}
				case 1:
					nk := 1 + r.intn(3)
					op = Op{C: cl, K: "setstate", A: []int64{wait(), int64(nk), 1, capMax, int64(r.intn(n)), int64(r.intn(n)), int64(r.intn(n))}}
				case 2:
					fs, fg := filt()
					idx := int64(r.intn(3))
					if fs < 0 && fg < 0 && idx != 2 {
						fg = int64(r.intn(2))
					}
					op = Op{C: cl, K: "shiftmatch", A: []int64{wait(), hm(), idx, int64(r.intn(2)), fs, fg, 0, 0, capMax, int64(r.intn(2))}}
				case 3:
					op = Op{C: cl, K: "setstate", A: []int64{wait(), 1, int64(r.pick(3, 0, 1)) , 0, int64(r.intn(n)), 0, 0}}
					if op.A[2] == 1 {
						op.A[2] = 2
					}
				case 4:
					op = Op{C: cl, K: "del", A: []int64{wait(), int64(r.intn(n))}}
				case 5:
					op = Op{C: cl, K: "slide", A: []int64{wait(), int64(r.intn(n)), -int64(1000 + r.intn(5000))}}
				default:
					addIdx++
					op = Op{C: cl, K: "add", A: []int64{wait(), 100 + addIdx, -int64(1000 + r.intn(600000)), int64(r.intn(2))}}
				}
				c.Ops = append(c.Ops, op)
				continue
			}
			if claimer {
				switch r.pick(3, 4, 4) {
				case 0:
					op = Op{C: cl, K: "shiftexp", A: []int64{wait(), hm()}}
				case 1:
					fs, fg := filt()
					idx := int64(r.intn(3))
					if fs < 0 && fg < 0 && idx != 2 {
						fg = int64(r.intn(2))
					}
					win := int64(0)
					if idx == 2 && r.chance(2, 3) {
						win = 1
					}
					mr := int64(0)
					if r.chance(1, 4) {
						mr = int64(1 + r.intn(3))
					}
					op = Op{C: cl, K: "shiftmatch", A: []int64{wait(), hm(), idx, int64(r.intn(2)), fs, fg, win, mr, 0, int64(r.intn(2))}}
				default:
					fs, fg := filt()
					op = Op{C: cl, K: "patchexp", A: []int64{wait(), hm(), fs, fg, 0, int64(r.intn(2))}}
				}
			} else {
				switch r.pick(4, 3, 3, 1) {
				case 0:
					op = Op{C: cl, K: "setstate", A: []int64{wait(), 1, int64(r.intn(3)), 0, int64(r.intn(n)), 0, 0}}
				case 1:
					off := -int64(1000 + r.intn(5000))
					if r.chance(1, 3) {
						off = int64(7200000 + r.intn(5000))
					}
					if r.chance(1, 8) {
						off = 0
					}
					op = Op{C: cl, K: "slide", A: []int64{wait(), int64(r.intn(n)), off}}
				case 2:
					op = Op{C: cl, K: "del", A: []int64{wait(), int64(r.intn(n))}}
				default:
					addIdx++
					op = Op{C: cl, K: "add", A: []int64{wait(), 100 + addIdx, -int64(1000 + r.intn(600000)), int64(r.intn(2))}}
				}
			}
			c.Ops = append(c.Ops, op)
		}
	}
	if prop == "C11" && !static && r.chance(1, 5) {
		// removal burst: claims over everything that is expired start at the same instant as explicit deletes of
		// exactly those records, so a delete can fall between a claim's selection and its removal of the record
		var expired []int64
		for _, op := range c.Ops {
			if op.K == "rec" && op.A[1] < 0 {
				expired = append(expired, op.A[0])
			}
		}
		if len(expired) >= 2 {
			c.Cfg["burst"] = 1
			var keep []Op
			for _, op := range c.Ops {
				if op.C == -1 {
					keep = append(keep, op)
				}
			}
			c.Ops = keep
			for cl := 0; cl < 1+r.intn(2); cl++ {
				if r.chance(2, 3) {
					c.Ops = append(c.Ops, Op{C: cl, K: "shiftexp", A: []int64{0, []int64{0, 5, 3}[r.intn(3)]}})
				} else {
					c.Ops = append(c.Ops, Op{C: cl, K: "shiftmatch", A: []int64{0, 0, 2, int64(r.intn(2)), -1, -1, 1, 0, 0, 0}})
				}
			}
			for cl := 2; cl < 3+r.intn(2); cl++ {
				for j := 1 + r.intn(3); j > 0; j-- {
					c.Ops = append(c.Ops, Op{C: cl, K: "del", A: []int64{0, expired[r.intn(len(expired))]}})
				}
			}
		}
	}
	if prop == "C11" && !static && c.Cfg["burst"] == 0 && r.chance(1, 5) {
		// filter-flip burst: shift-matching claims with a state filter start at the same instant as explicit patches
		// that move records out of that state, so a flip can fall between a claim's look at the record and its taking it
		var keep []Op
		for _, op := range c.Ops {
			if op.C == -1 {
				keep = append(keep, op)
			}
		}
		c.Ops = keep
		fs := int64(r.intn(2)) * 3 // state==idle, or OR(idle, busy)
		for cl := 0; cl < 1+r.intn(2); cl++ {
			c.Ops = append(c.Ops, Op{C: cl, K: "shiftmatch", A: []int64{0, []int64{0, 5, 2}[r.intn(3)], int64(r.intn(2)), int64(r.intn(2)), fs, -1, 0, 0, 0, int64(r.intn(2))}})
		}
		for cl := 2; cl < 4+r.intn(2); cl++ {
			for j := 2 + r.intn(3); j > 0; j-- {
				c.Ops = append(c.Ops, Op{C: cl, K: "setstate", A: []int64{0, 1, 1, 0, int64(r.intn(n)), 0, 0}})
			}
		}
	}
	c.Sched = genSched(r)
	if r.chance(1, 3) {
		c.Sched.StallPPM = 2_000
	}
	return c
}

type c11body struct {
	Grp   int64  `msgpack:"grp"`
	State string `msgpack:"state"`
	Ver   int64  `msgpack:"ver"`
	Owner int64  `msgpack:"owner"`
}

type c11got struct {
	key     string
	body    c11body
	exp     int64 // as returned, unix nanos, 0 = none
	created int64
	status  hydrapb.PatchResult_StatusCode
}

type c11op struct {
	client    int
	op        Op
	kind      string
	call, ret int64
	t0, t1    time.Time
	err       error
	got       []c11got // claims: returned records; setstate: per-key statuses
	keys      []string // mutators: target keys
	acked     bool     // del: DELETED; slide/add: applied
	capHit    bool
	id        int64 // unique id of the operation (owner / ver values derive from it)
}

func c11key(i int64) string {
	if i >= 100 {
		return fmt.Sprintf("a%03d", i)
	}
	return fmt.Sprintf("r%02d", i)
}

func c11decode(raw []byte) (b c11body, err error) {
	if len(raw) >= 2 && raw[0] == 0xC7 && raw[1] == 0x00 {
		raw = raw[2:]
	}
	err = msgpack.Unmarshal(raw, &b)
	return
}

// c11stateOK tells whether a state satisfies the state part of a filter: fs -1 none, 0..2 one state,
// 3 = OR(state==idle, state==busy) (an all-indexable OR group), 4 = state STRING_IN [idle busy]
func c11stateOK(fs int64, state string) bool {
	switch {
	case fs < 0:
		return true
	case fs <= 2:
		return state == c11States[fs]
	}
	return state == "idle" || state == "busy"
}

func c11filter(fs, fg, legOrder int64) *hydrapb.FilterGroup {
	if fs < 0 && fg < 0 {
		return nil
	}
	sp, gp := "state", "grp"
	stateLeg := func(st string) *hydrapb.TreasureFilter {
		return &hydrapb.TreasureFilter{BytesFieldPath: &sp, Operator: hydrapb.Relational_EQUAL, CompareValue: &hydrapb.TreasureFilter_StringVal{StringVal: st}}
	}
	var grpLeg *hydrapb.TreasureFilter
	if fg >= 0 {
		grpLeg = &hydrapb.TreasureFilter{BytesFieldPath: &gp, Operator: hydrapb.Relational_EQUAL, CompareValue: &hydrapb.TreasureFilter_Int64Val{Int64Val: fg}}
	}
	if fs == 3 {
		or := &hydrapb.FilterGroup{Logic: hydrapb.FilterLogic_OR, Filters: []*hydrapb.TreasureFilter{stateLeg("idle"), stateLeg("busy")}}
		if legOrder == 1 {
			or.Filters[0], or.Filters[1] = or.Filters[1], or.Filters[0]
		}
		if grpLeg == nil {
			return or
		}
		return &hydrapb.FilterGroup{Logic: hydrapb.FilterLogic_AND, Filters: []*hydrapb.TreasureFilter{grpLeg}, SubGroups: []*hydrapb.FilterGroup{or}}
	}
	var legs []*hydrapb.TreasureFilter
	switch {
	case fs == 4:
		legs = append(legs, &hydrapb.TreasureFilter{BytesFieldPath: &sp, Operator: hydrapb.Relational_STRING_IN, StringInVals: []string{"idle", "busy"}})
	case fs >= 0:
		legs = append(legs, stateLeg(c11States[fs]))
	}
	if grpLeg != nil {
		legs = append(legs, grpLeg)
	}
	if legOrder == 1 && len(legs) == 2 {
		legs[0], legs[1] = legs[1], legs[0]
	}
	return &hydrapb.FilterGroup{Logic: hydrapb.FilterLogic_AND, Filters: legs}
}

func c11cap(max int64) *hydrapb.Cap {
	if max <= 0 {
		return nil
	}
	return &hydrapb.Cap{Filter: c11filter(1, -1, 0), MaxMatching: int32(max)}
}

func mp(v any) []byte { b, _ := msgpack.Marshal(v); return b }

type c11model struct {
	grp     int64
	state   string
	exp     int64
	created int64
}

func runC11(t *testing.T, c Case) (res Result) {
	swamp := "verif/per/claims"
	wi := c.cfg("write_interval", 0)
	capMax := c.cfg("cap", 0)
	static := c.cfg("static", 0) == 1
	const lease = time.Hour
	var ops []*c11op
	initial := map[string]*c11model{} // records as set up (+ added ones, filled when acknowledged)
	var early *Result
	stuck := ""
	panicked := ""
	var startT time.Time
	type finalState struct {
		recs map[string]c11body
		exps map[string]int64
		err  string
	}
	var fin [2]finalState
	var drained []string
	ncl := 0
	for _, op := range c.Ops {
		if op.C+1 > ncl {
			ncl = op.C + 1
		}
	}
	seq := ncl == 1
	seqFail := func(f string, a ...any) {
		if early == nil {
			x := violation("cap_accounting_differs_from_model", f, a...)
			early = &x
		}
	}
	out := runSim(t, c.Sched, func() {
		disk := simdisk.New()
		srv := startServer(disk, 3600, wi)
		root := &gwClient{srv: srv, island: 1, timeout: 120 * time.Second}
		root.register("verif/per/*", false, 3600, wi)
		startT = time.Now()
		uniq := int64(0)
		create := func(cl *gwClient, key string, off, grp int64, state string) (bool, int64, int64) {
			uniq++
			meta := &hydrapb.PatchMeta{SetCreatedAt: true}
			exp := int64(0)
			if off != 0 {
				exp = startT.Add(time.Duration(off) * time.Millisecond).UnixNano()
				meta.SetExpiredAt = timestamppb.New(time.Unix(0, exp))
			}
			var resp *hydrapb.PatchTreasuresResponse
			var err error
			now := time.Now().UnixNano()
			cl.call("PatchTreasures", func() {
				resp, err = srv.gw.PatchTreasures(ctxBg, &hydrapb.PatchTreasuresRequest{IslandID: 1, SwampName: swamp, CreateIfNotExist: true, Meta: meta,
					Patches: []*hydrapb.TreasurePatch{{Key: key, Ops: []*hydrapb.PatchOp{
						{Op: hydrapb.PatchOp_SET, Path: "grp", Value: mp(grp)},
						{Op: hydrapb.PatchOp_SET, Path: "state", Value: mp(state)},
						{Op: hydrapb.PatchOp_SET, Path: "ver", Value: mp(uniq)},
					}}}})
			})
			ok := err == nil && resp != nil && len(resp.Results) == 1 && resp.Results[0].Status == hydrapb.PatchResult_CREATED
			return ok, exp, now
		}
		for _, op := range c.Ops {
			if op.C != -1 || op.K != "rec" {
				continue
			}
			key := c11key(op.A[0])
			ok, exp, now := create(root, key, op.A[1], op.A[2], c11States[op.A[3]])
			if !ok {
				x := violation("setup_failed", "record %s could not be created", key)
				early = &x
				return
			}
			initial[key] = &c11model{grp: op.A[2], state: c11States[op.A[3]], exp: exp, created: now}
			simrt.Sleep(time.Millisecond)
		}
		// a record no claim can select (no expiry, group 9) keeps the swamp from being emptied and auto-destroyed;
		// that lifecycle race is C16's subject
		if ok, _, _ := create(root, "zz-anchor", 0, 9, "anchor"); !ok {
			x := violation("setup_failed", "anchor record could not be created")
			early = &x
			return
		}
		// sequential reference model (C12, one client)
		model := map[string]*c11model{}
		for k, v := range initial {
			cp := *v
			model[k] = &cp
		}
		modelCount := func() int64 {
			n := int64(0)
			for _, m := range model {
				if m.state == "claimed" {
					n++
				}
			}
			return n
		}
		byC := map[int][]Op{}
		for _, op := range c.Ops {
			if op.C >= 0 {
				byC[op.C] = append(byC[op.C], op)
			}
		}
		var ids []int32
		for cl := 0; cl < ncl; cl++ {
			cl := cl
			script := byC[cl]
			if len(script) == 0 {
				continue
			}
			ids = append(ids, simrt.GoID(func() {
				cli := &gwClient{srv: srv, island: 1, timeout: 120 * time.Second}
				for _, op := range script {
					if op.A[0] > 0 {
						simrt.Sleep(time.Duration(op.A[0]) * time.Millisecond)
					}
					uniq++
					o := &c11op{client: cl, op: op, kind: op.K, id: uniq}
					o.call, o.t0 = simrt.EventSeq(), time.Now()
					switch op.K {
					case "shiftexp":
						var resp *hydrapb.ShiftExpiredTreasuresResponse
						cli.call("ShiftExpiredTreasures", func() {
							resp, o.err = srv.gw.ShiftExpiredTreasures(ctxBg, &hydrapb.ShiftExpiredTreasuresRequest{IslandID: 1, SwampName: swamp, HowMany: int32(op.A[1])})
						})
						for _, tr := range resp.GetTreasures() {
							o.got = append(o.got, c11fromTreasure(tr))
						}
					case "shiftmatch":
						req := &hydrapb.ShiftMatchingTreasuresRequest{IslandID: 1, SwampName: swamp, HowMany: int32(op.A[1]), MaxResults: int32(op.A[7]),
							IndexType: []hydrapb.IndexType_Type{hydrapb.IndexType_KEY, hydrapb.IndexType_CREATION_TIME, hydrapb.IndexType_EXPIRATION_TIME}[op.A[2]],
							OrderType: []hydrapb.OrderType_Type{hydrapb.OrderType_ASC, hydrapb.OrderType_DESC}[op.A[3]],
							Filters:   c11filter(op.A[4], op.A[5], op.A[9]), Cap: c11cap(op.A[8])}
						if op.A[6] == 1 {
							req.ToTime = timestamppb.New(o.t0)
						}
						var resp *hydrapb.ShiftMatchingTreasuresResponse
						cli.call("ShiftMatchingTreasures", func() { resp, o.err = srv.gw.ShiftMatchingTreasures(ctxBg, req) })
						for _, tr := range resp.GetTreasures() {
							o.got = append(o.got, c11fromTreasure(tr))
						}
						o.capHit = resp.GetCapReached()
						if seq && o.err == nil {
							// the model follows the reply (which records a selection takes is the engine's choice within
							// HowMany / budget); the state and the matching count are compared after the operation
							for _, g := range o.got {
								delete(model, g.key)
							}
						}
					case "patchexp":
						req := &hydrapb.PatchExpiredTreasuresRequest{IslandID: 1, SwampName: swamp, HowMany: int32(op.A[1]), Filters: c11filter(op.A[2], op.A[3], op.A[5]), Cap: c11cap(op.A[4]),
							Ops:  []*hydrapb.PatchOp{{Op: hydrapb.PatchOp_SET, Path: "state", Value: mp("claimed")}, {Op: hydrapb.PatchOp_SET, Path: "owner", Value: mp(o.id)}},
							Meta: &hydrapb.PatchMeta{SetExpiredAt: timestamppb.New(o.t0.Add(lease))}}
						var resp *hydrapb.PatchExpiredTreasuresResponse
						cli.call("PatchExpiredTreasures", func() { resp, o.err = srv.gw.PatchExpiredTreasures(ctxBg, req) })
						for _, p := range resp.GetPatched() {
							g := c11got{key: p.Key, status: p.Status}
							if p.Status == hydrapb.PatchResult_PATCHED {
								g.body, _ = c11decode(p.NewMsgpack)
							}
							if p.ExpiredAt != nil {
								g.exp = p.ExpiredAt.AsTime().UnixNano()
							}
							o.got = append(o.got, g)
						}
						o.capHit = resp.GetCapReached()
						if seq && o.err == nil {
							for _, g := range o.got {
								if m := model[g.key]; m != nil && g.status == hydrapb.PatchResult_PATCHED {
									m.state, m.exp = "claimed", o.t0.Add(lease).UnixNano()
								}
							}
						}
					case "setstate":
						st := c11States[op.A[2]]
						var patches []*hydrapb.TreasurePatch
						seen := map[string]bool{}
						for i := int64(0); i < op.A[1]; i++ {
							k := c11key(op.A[4+i])
							if seen[k] {
								continue
							}
							seen[k] = true
							o.keys = append(o.keys, k)
							patches = append(patches, &hydrapb.TreasurePatch{Key: k, Ops: []*hydrapb.PatchOp{{Op: hydrapb.PatchOp_SET, Path: "state", Value: mp(st)}, {Op: hydrapb.PatchOp_SET, Path: "ver", Value: mp(o.id*10 + i)}}})
						}
						var resp *hydrapb.PatchTreasuresResponse
						cli.call("PatchTreasures", func() {
							resp, o.err = srv.gw.PatchTreasures(ctxBg, &hydrapb.PatchTreasuresRequest{IslandID: 1, SwampName: swamp, Patches: patches, Cap: c11cap(op.A[3])})
						})
						for _, r := range resp.GetResults() {
							o.got = append(o.got, c11got{key: r.Key, status: r.Status})
						}
						o.capHit = resp.GetCapReached()
						if seq && o.err == nil {
							if len(o.got) != len(o.keys) {
								seqFail("PatchTreasures(%v) answered %d results for %d keys", op.A, len(o.got), len(o.keys))
							}
							for i, g := range o.got {
								if i >= len(o.keys) {
									break
								}
								m := model[o.keys[i]]
								want := hydrapb.PatchResult_PATCHED
								switch {
								case m == nil:
									want = hydrapb.PatchResult_KEY_NOT_FOUND
								case op.A[3] > 0 && st == "claimed" && m.state != "claimed" && modelCount() >= op.A[3]:
									want = hydrapb.PatchResult_CAP_EXCEEDED
								}
								if g.key != o.keys[i] || g.status != want {
									seqFail("PatchTreasures(%v): key %s answered %v, the model expects %v (record state %v, claimed now %d, cap %d)", op.A, o.keys[i], g.status, want, m, modelCount(), op.A[3])
									break
								}
								if want == hydrapb.PatchResult_PATCHED {
									m.state = st
								}
							}
						}
					case "slide":
						k := c11key(op.A[1])
						o.keys = []string{k}
						meta := &hydrapb.PatchMeta{}
						if op.A[2] == 0 {
							meta.ClearExpiredAt = true
						} else {
							meta.SetExpiredAt = timestamppb.New(o.t0.Add(time.Duration(op.A[2]) * time.Millisecond))
						}
						var resp *hydrapb.PatchTreasuresResponse
						cli.call("PatchTreasures", func() {
							resp, o.err = srv.gw.PatchTreasures(ctxBg, &hydrapb.PatchTreasuresRequest{IslandID: 1, SwampName: swamp, Meta: meta, Patches: []*hydrapb.TreasurePatch{{Key: k}}})
						})
						o.acked = o.err == nil && len(resp.GetResults()) == 1 && resp.Results[0].Status == hydrapb.PatchResult_PATCHED
						if seq && o.acked {
							if m := model[k]; m != nil {
								m.exp = 0
								if op.A[2] != 0 {
									m.exp = o.t0.Add(time.Duration(op.A[2]) * time.Millisecond).UnixNano()
								}
							} else {
								seqFail("meta patch of the missing key %s answered PATCHED", k)
							}
						}
					case "del":
						k := c11key(op.A[1])
						o.keys = []string{k}
						resp, err := cli.del(swamp, []string{k})
						o.err = err
						o.acked = err == nil && resp != nil && len(resp.Responses) == 1 && len(resp.Responses[0].KeyStatuses) == 1 && resp.Responses[0].KeyStatuses[0].Status == hydrapb.Status_DELETED
						if seq {
							if (model[k] != nil) != o.acked {
								seqFail("Delete(%s) acknowledged=%v but the model has the record=%v", k, o.acked, model[k] != nil)
							}
							delete(model, k)
						}
					case "capadd":
						k := c11key(op.A[1])
						o.keys = []string{k}
						st := c11States[op.A[3]]
						var resp *hydrapb.PatchTreasuresResponse
						cli.call("PatchTreasures", func() {
							resp, o.err = srv.gw.PatchTreasures(ctxBg, &hydrapb.PatchTreasuresRequest{IslandID: 1, SwampName: swamp, CreateIfNotExist: true,
								InitialMsgpackOnCreate: mp(map[string]any{"grp": op.A[2], "state": st, "ver": o.id}), Cap: c11cap(op.A[4]),
								Patches: []*hydrapb.TreasurePatch{{Key: k, Ops: []*hydrapb.PatchOp{{Op: hydrapb.PatchOp_SET, Path: "owner", Value: mp(o.id)}}}}})
						})
						for _, r := range resp.GetResults() {
							o.got = append(o.got, c11got{key: r.Key, status: r.Status})
						}
						o.capHit = resp.GetCapReached()
						created := len(o.got) == 1 && o.got[0].status == hydrapb.PatchResult_CREATED
						o.acked = created
						initial[k] = &c11model{grp: op.A[2], state: st}
						if seq && o.err == nil {
							want := hydrapb.PatchResult_CREATED
							if op.A[4] > 0 && st == "claimed" && modelCount() >= op.A[4] {
								want = hydrapb.PatchResult_CAP_EXCEEDED
							}
							if len(o.got) != 1 || o.got[0].status != want {
								seqFail("PatchTreasures(create %s from a seed body with state=%s): answered %v, the model expects %v (claimed now %d, cap %d)", k, st, o.got, want, modelCount(), op.A[4])
							} else if want == hydrapb.PatchResult_CREATED {
								cp := *initial[k]
								model[k] = &cp
							}
						}
					case "add":
						k := c11key(op.A[1])
						o.keys = []string{k}
						ok, exp, now := create(cli, k, op.A[2], op.A[3], "idle")
						o.acked = ok
						// the offset of an added record is relative to the start of the run
						initial[k] = &c11model{grp: op.A[3], state: "idle", exp: exp, created: now}
						if seq && ok {
							cp := *initial[k]
							model[k] = &cp
						}
					}
					o.ret, o.t1 = simrt.EventSeq(), time.Now()
					ops = append(ops, o)
					if cli.hung != "" {
						stuck = cli.hung
						if os.Getenv("VERIF_DEBUG") != "" {
							buf := make([]byte, 1<<20)
							fmt.Printf("%s\n", buf[:runtime.Stack(buf, true)])
						}
						return
					}
					if seq && early == nil && c.Prop == "C12" {
						// state after every operation
						resp, err := cli.getAll(swamp)
						if err == nil {
							got := map[string]string{}
							for _, tr := range resp.GetTreasures() {
								if tr.Key == "zz-anchor" {
									continue
								}
								b, _ := c11decode(tr.BytesVal)
								got[tr.Key] = b.State
							}
							var ks []string
							for k := range model {
								ks = append(ks, k)
							}
							for k := range got {
								if model[k] == nil {
									ks = append(ks, k)
								}
							}
							sort.Strings(ks)
							nClaimed := int64(0)
							for _, st := range got {
								if st == "claimed" {
									nClaimed++
								}
							}
							if capMax > 0 && nClaimed > capMax && early == nil {
								x := violation("cap_exceeded", "after %s(%v) %d records have state==claimed although every operation carried MaxMatching=%d", op.K, op.A, nClaimed, capMax)
								early = &x
							}
							for _, k := range ks {
								ms := "<absent>"
								if model[k] != nil {
									ms = model[k].state
								}
								gs, ok := got[k]
								if !ok {
									gs = "<absent>"
								}
								if ms != gs {
									seqFail("after %s(%v): record %s has state %s, the model expects %s", op.K, op.A, k, gs, ms)
									break
								}
							}
						}
					}
				}
			}))
		}
		if !simrt.JoinIDs(ids, 10*time.Minute) {
			stuck = "client scripts"
			return
		}
		if stuck != "" {
			return
		}
		simrt.Sleep(1500 * time.Millisecond)
		read := func(i int) {
			fin[i] = finalState{recs: map[string]c11body{}, exps: map[string]int64{}}
			resp, err := root.getAll(swamp)
			if err != nil || root.hung != "" {
				fin[i].err = fmt.Sprintf("GetAll failed: %v %s", err, root.hung)
				return
			}
			for _, tr := range resp.GetTreasures() {
				if tr.Key == "zz-anchor" {
					continue
				}
				b, derr := c11decode(tr.BytesVal)
				if derr != nil {
					fin[i].err = fmt.Sprintf("record %s has an unreadable body: %v", tr.Key, derr)
				}
				fin[i].recs[tr.Key] = b
				if tr.ExpiredAt != nil {
					fin[i].exps[tr.Key] = tr.ExpiredAt.AsTime().UnixNano()
				}
			}
		}
		read(0)
		if !srv.stop(5 * time.Minute) {
			stuck = "graceful stop"
			return
		}
		srv = startServer(disk, 3600, wi)
		root = &gwClient{srv: srv, island: 1, timeout: 120 * time.Second}
		root.register("verif/per/*", false, 3600, wi)
		read(1)
		// whatever the expiration index still hands out must exist
		var resp *hydrapb.ShiftExpiredTreasuresResponse
		root.call("ShiftExpiredTreasures", func() {
			resp, _ = srv.gw.ShiftExpiredTreasures(ctxBg, &hydrapb.ShiftExpiredTreasuresRequest{IslandID: 1, SwampName: swamp, HowMany: 0})
		})
		for _, tr := range resp.GetTreasures() {
			drained = append(drained, tr.Key)
		}
		if e := srv.logs.find("grpc gateway panic"); e != "" {
			panicked = e
		}
		srv.stop(5 * time.Minute)
	})
	res.SimNanos = out.stats.SimNanos
	res.TraceHash = out.stats.Hash
	res.PreemptSteps = out.stats.PreemptSteps
	res.count("sched_steps", out.stats.Steps)
	res.count("preemptions", out.stats.Preemptions)
	fail := func(x Result) Result {
		x.TraceHash, x.PreemptSteps, x.SimNanos, x.Counters = res.TraceHash, res.PreemptSteps, res.SimNanos, res.Counters
		return x
	}
	if out.rootPanic != "" {
		return fail(violation("harness_panic", "root: %s", out.rootPanic))
	}
	if out.escaped != "" {
		return fail(violation("server_goroutine_panic", "a server goroutine panicked: %s", oneLine(out.escaped, 400)))
	}
	if out.aborted || out.stats.OverBudget {
		return Result{Verdict: "inconclusive", Detail: "scheduler budget exhausted"}
	}
	if stuck != "" {
		return fail(violation("request_never_returns", "%s had not returned after the simulated timeout", stuck))
	}
	if panicked != "" {
		return fail(violation("request_panicked", "a handler panicked: %s", oneLine(panicked, 400)))
	}
	if early != nil {
		return fail(*early)
	}
	if os.Getenv("VERIF_DEBUG") != "" {
		for _, o := range ops {
			fmt.Printf("  c%d %s %v [%d,%d] err=%v acked=%v cap=%v keys=%v got=", o.client, o.kind, o.op.A, o.call, o.ret, o.err, o.acked, o.capHit, o.keys)
			for _, g := range o.got {
				fmt.Printf(" %s(%v %s ver=%d own=%d exp=%d)", g.key, g.status, g.body.State, g.body.Ver, g.body.Owner, g.exp)
			}
			fmt.Println()
		}
		for i := range fin {
			fmt.Printf("  final[%d] err=%q:", i, fin[i].err)
			var ks []string
			for k := range fin[i].recs {
				ks = append(ks, k)
			}
			sort.Strings(ks)
			for _, k := range ks {
				fmt.Printf(" %s=%s", k, fin[i].recs[k].State)
			}
			fmt.Println()
		}
		fmt.Printf("  drained=%v\n", drained)
	}
	sort.Slice(ops, func(i, j int) bool { return ops[i].call < ops[j].call })
	simDur := time.Duration(out.stats.SimNanos)
	if simDur >= lease {
		return Result{Verdict: "inconclusive", Detail: "simulated run longer than the lease"}
	}
	for _, o := range ops {
		if o.err != nil {
			return fail(violation("request_failed", "%s(%v) returned an error: %v", o.kind, o.op.A, o.err))
		}
	}
	isClaim := func(o *c11op) bool { return o.kind == "shiftexp" || o.kind == "shiftmatch" || o.kind == "patchexp" }
	touched := func(key string, o *c11op) bool { // some mutator on key overlaps o
		for _, m := range ops {
			if m == o || isClaim(m) && m.kind != "patchexp" {
				continue
			}
			hit := false
			for _, k := range m.keys {
				if k == key {
					hit = true
				}
			}
			if m.kind == "patchexp" {
				for _, g := range m.got {
					if g.key == key {
						hit = true
					}
				}
			}
			if hit && m.call < o.ret && o.call < m.ret {
				return true
			}
		}
		return false
	}
	// orderClass names an index-order violation. The comparator of the engine's index sort reads the live
	// records, so a write of the sort attribute (expiry slide, patch-claim, new record, delete - which zeroes it) that runs while an index
	// walk's lazy build or re-sort is in progress leaves the index mis-sorted: that history is a recorded finding;
	// a mis-ordered reply without such a write is not.
	orderClass := func(o *c11op) string {
		for _, w := range ops {
			writes := (w.kind == "slide" && w.acked) || (w.kind == "add" && w.acked) || (w.kind == "del" && w.acked) // a delete zeroes the expiry of the removed object
			if w.kind == "patchexp" {
				for _, g := range w.got {
					if g.status == hydrapb.PatchResult_PATCHED {
						writes = true
					}
				}
			}
			if !writes || w == o {
				continue
			}
			for _, b := range ops {
				if b != w && isClaim(b) && b.call <= o.call && w.call < b.ret && b.call < w.ret {
					return "not_in_index_order(sort_attribute_written_while_the_index_was_built_or_sorted)"
				}
			}
		}
		return "not_in_index_order"
	}
	claimedSomething := false
	// ---- per reply
	for _, o := range ops {
		if !isClaim(o) {
			continue
		}
		lim := o.op.A[1]
		if o.kind == "shiftmatch" && o.op.A[7] > 0 && (lim == 0 || o.op.A[7] < lim) {
			lim = o.op.A[7]
		}
		n := 0
		seen := map[string]bool{}
		for _, g := range o.got {
			if seen[g.key] {
				return fail(violation("record_twice_in_one_reply", "%s(%v) returned key %s twice", o.kind, o.op.A, g.key))
			}
			seen[g.key] = true
			if o.kind != "patchexp" || g.status == hydrapb.PatchResult_PATCHED {
				n++
			}
		}
		if lim > 0 && int64(len(o.got)) > lim {
			return fail(violation("more_than_requested", "%s(%v) returned %d records", o.kind, o.op.A, len(o.got)))
		}
		if n > 0 {
			claimedSomething = true
		}
		for i, g := range o.got {
			ini := initial[g.key]
			if ini == nil {
				return fail(violation("unknown_record_returned", "%s(%v) returned key %s, which nobody wrote", o.kind, o.op.A, g.key))
			}
			switch o.kind {
			case "shiftexp":
				if g.exp == 0 || g.exp >= o.t1.UnixNano() {
					return fail(violation("claimed_record_not_expired", "ShiftExpired returned %s whose expiry (%d ns after the start) is unset or not before the end of the request (%d)", g.key, g.exp-startT.UnixNano(), o.t1.Sub(startT)))
				}
				if i > 0 && g.exp < o.got[i-1].exp && !touched(g.key, o) && !touched(o.got[i-1].key, o) {
					return fail(violation(orderClass(o), "ShiftExpired returned %s (expiry %d) after %s (expiry %d)", g.key, g.exp, o.got[i-1].key, o.got[i-1].exp))
				}
			case "shiftmatch":
				fs, fg := o.op.A[4], o.op.A[5]
				if !c11stateOK(fs, g.body.State) || (fg >= 0 && g.body.Grp != fg) {
					return fail(violation("claimed_record_fails_filter", "ShiftMatching(state=%d grp=%d legOrder=%d) returned %s with state=%s grp=%d", fs, fg, o.op.A[9], g.key, g.body.State, g.body.Grp))
				}
				if o.op.A[2] == 2 && g.exp == 0 {
					return fail(violation("claimed_record_outside_window", "ShiftMatching on the expiration index returned %s, which has no expiry", g.key))
				}
				if o.op.A[6] == 1 && !(g.exp < o.t0.UnixNano()) {
					return fail(violation("claimed_record_outside_window", "ShiftMatching(ToTime=request time) returned %s whose expiry lies %v after it", g.key, time.Duration(g.exp-o.t0.UnixNano())))
				}
				if i > 0 && !touched(g.key, o) && !touched(o.got[i-1].key, o) {
					p := o.got[i-1]
					var a, b int64
					switch o.op.A[2] {
					case 0:
						if p.key < g.key {
							a, b = 0, 1
						} else {
							a, b = 1, 0
						}
					case 1:
						a, b = p.created, g.created
					case 2:
						a, b = p.exp, g.exp
					}
					if (o.op.A[3] == 0 && a > b) || (o.op.A[3] == 1 && a < b) {
						return fail(violation(orderClass(o), "ShiftMatching(index=%d desc=%d) returned %s after %s", o.op.A[2], o.op.A[3], g.key, p.key))
					}
				}
			case "patchexp":
				if g.status != hydrapb.PatchResult_PATCHED {
					continue
				}
				fg := o.op.A[3]
				if fg >= 0 && ini.grp != fg {
					return fail(violation("claimed_record_fails_filter", "PatchExpired(grp=%d) patched %s of group %d", fg, g.key, ini.grp))
				}
				if g.body.State != "claimed" || g.body.Owner != o.id {
					return fail(violation("patch_not_applied", "PatchExpired reported %s as patched but the returned body is %+v (owner should be %d)", g.key, g.body, o.id))
				}
				if g.exp != o.t0.Add(lease).UnixNano() {
					return fail(violation("patch_not_applied", "PatchExpired reported %s as patched but the returned expiry is not the requested lease end", g.key))
				}
			}
		}
	}
	// A patch that is acknowledged as PATCHED although it overlapped a removal of its key re-creates the record
	// (the writer keeps the removed object and saves it again): that is the known removal-overlaps-write finding
	// of C09, not something a claim did. What happens to such a key afterwards is not judged here.
	rewritten := func(key string, rm *c11op) bool {
		for _, w := range ops {
			if w.kind != "setstate" && w.kind != "slide" {
				continue
			}
			ok := w.acked
			for _, g := range w.got {
				if g.key == key && g.status == hydrapb.PatchResult_PATCHED {
					ok = true
				}
			}
			hit := false
			for _, k := range w.keys {
				if k == key {
					hit = true
				}
			}
			if ok && hit && w.call < rm.ret && rm.call < w.ret {
				return true
			}
		}
		return false
	}
	// ---- across replies: a record is removed at most once
	removedBy := map[string]*c11op{}
	unjudged := map[string]bool{}
	for _, o := range ops {
		var keys []string
		switch {
		case o.kind == "shiftexp" || o.kind == "shiftmatch":
			for _, g := range o.got {
				keys = append(keys, g.key)
			}
		case o.kind == "del" && o.acked:
			keys = o.keys
		}
		for _, k := range keys {
			if p := removedBy[k]; p != nil {
				if rewritten(k, p) {
					removedBy[k] = nil // re-created by the racing write; not judged any further
					unjudged[k] = true
					continue
				}
				cls := "record_handed_out_twice"
				if p.kind == "del" || o.kind == "del" {
					cls = "record_both_deleted_and_handed_out"
				}
				return fail(violation(cls, "record %s was removed by %s(%v) [%d,%d] and again by %s(%v) [%d,%d]", k, p.kind, p.op.A, p.call, p.ret, o.kind, o.op.A, o.call, o.ret))
			}
			removedBy[k] = o
		}
	}
	// nothing is claimed after its acknowledged removal
	for _, o := range ops {
		if o.kind != "patchexp" {
			continue
		}
		for _, g := range o.got {
			if p := removedBy[g.key]; p != nil && g.status == hydrapb.PatchResult_PATCHED && p.ret < o.call {
				return fail(violation("removed_record_claimed", "PatchExpired [%d,%d] patched %s, which %s had removed before [%d,%d]", o.call, o.ret, g.key, p.kind, p.call, p.ret))
			}
		}
	}
	// a record that a PatchExpired claimed (PATCHED) and that a shift handed out as well went to the shift after the
	// patch - the only order in which both can have happened - so the copy the shift returned shows a claimer's patch
	for _, o := range ops {
		if o.kind != "patchexp" {
			continue
		}
		for _, g := range o.got {
			p := removedBy[g.key]
			if g.status != hydrapb.PatchResult_PATCHED || p == nil || p.kind == "del" || unjudged[g.key] {
				continue
			}
			owners := map[int64]bool{}
			for _, q := range ops {
				if q.kind == "patchexp" {
					for _, gq := range q.got {
						if gq.key == g.key && gq.status == hydrapb.PatchResult_PATCHED {
							owners[q.id] = true
						}
					}
				}
			}
			for _, gs := range p.got {
				if gs.key == g.key && !owners[gs.body.Owner] {
					return fail(violation("record_handed_out_twice", "record %s was claimed by PatchExpired [%d,%d] (PATCHED, owner %d, lease 1h) and handed out by %s [%d,%d] as it was before any claim (owner %d, state %s): two claimants hold the same record", g.key, o.call, o.ret, o.id, p.kind, p.call, p.ret, gs.body.Owner, gs.body.State))
				}
			}
		}
	}
	// two patch-claims of one record need a re-expiring change around them
	for i, a := range ops {
		for _, b := range ops[i+1:] {
			if a.kind != "patchexp" || b.kind != "patchexp" {
				continue
			}
			for _, ga := range a.got {
				for _, gb := range b.got {
					if ga.key != gb.key || ga.status != hydrapb.PatchResult_PATCHED || gb.status != hydrapb.PatchResult_PATCHED {
						continue
					}
					again := false
					for _, m := range ops {
						if m.kind == "slide" && m.op.A[2] < 0 && m.keys[0] == ga.key && m.ret > a.call && m.call < b.ret {
							again = true
						}
					}
					if !again {
						return fail(violation("record_handed_out_twice", "record %s was claimed by PatchExpired [%d,%d] (lease 1h) and again by PatchExpired [%d,%d] with nothing re-expiring it in between", ga.key, a.call, a.ret, b.call, b.ret))
					}
				}
			}
		}
	}
	// ---- final state
	for i, f := range fin {
		when := []string{"after the run", "after restart"}[i]
		if f.err != "" {
			return fail(violation("final_state_unreadable", "%s: %s", when, f.err))
		}
		var ks []string
		for k := range initial {
			ks = append(ks, k)
		}
		sort.Strings(ks)
		for _, k := range ks {
			_, present := f.recs[k]
			added := false
			for _, o := range ops {
				if (o.kind == "add" || o.kind == "capadd") && o.keys[0] == k && !o.acked {
					added = true // creation not acknowledged: either way
				}
			}
			if added {
				continue
			}
			if p := removedBy[k]; p != nil && rewritten(k, p) {
				continue
			}
			if unjudged[k] {
				continue
			}
			if p := removedBy[k]; p != nil && present {
				return fail(violation("removed_record_resurrected", "%s record %s exists although %s(%v) removed it", when, k, p.kind, p.op.A))
			}
			if removedBy[k] == nil && !present {
				return fail(violation("record_lost", "%s record %s is gone although nobody removed it", when, k))
			}
		}
		if capMax > 0 {
			n := int64(0)
			var who []string
			for k, b := range f.recs {
				if b.State == "claimed" {
					n++
					who = append(who, k)
				}
			}
			sort.Strings(who)
			if n > capMax {
				return fail(violation("cap_exceeded", "%s %d records match the cap's filter (state==claimed: %v) although every operation carried MaxMatching=%d", when, n, who, capMax))
			}
		}
	}
	for _, k := range drained {
		if _, ok := fin[1].recs[k]; !ok {
			return fail(violation("removed_record_resurrected", "after restart ShiftExpired handed out %s, which is not among the swamp's records", k))
		}
	}
	// ---- claimers only: nothing eligible is skipped, nothing younger is preferred
	if static {
		taken := map[string]bool{}
		for _, o := range ops {
			for _, g := range o.got {
				if o.kind != "patchexp" || g.status == hydrapb.PatchResult_PATCHED {
					taken[g.key] = true
				}
			}
		}
		var ks []string
		for k := range initial {
			ks = append(ks, k)
		}
		sort.Strings(ks)
		for _, o := range ops {
			expSel := o.kind == "shiftexp" || o.kind == "patchexp" || (o.kind == "shiftmatch" && o.op.A[2] == 2 && o.op.A[6] == 1 && o.op.A[3] == 0)
			if !expSel {
				continue
			}
			// A claim that runs next to another request may meet a record whose guard that request holds at that
			// instant; the engine then leaves the record for the next call instead of waiting under its index lock
			// (documented with fix 4e17d8e). Completeness and "nothing younger preferred" are therefore only demanded
			// of a claim that ran alone - the property itself promises disjointness, criteria, limit and index order.
			alone := true
			for _, p := range ops {
				if p != o && p.call < o.ret && o.call < p.ret {
					alone = false
				}
			}
			if !alone {
				continue
			}
			fs, fg := int64(-1), int64(-1)
			lim := o.op.A[1]
			switch o.kind {
			case "shiftmatch":
				fs, fg = o.op.A[4], o.op.A[5]
				if o.op.A[7] > 0 && (lim == 0 || o.op.A[7] < lim) {
					lim = o.op.A[7]
				}
			case "patchexp":
				fs, fg = o.op.A[2], o.op.A[3]
			}
			for _, x := range ks {
				ix := initial[x]
				// eligible during the whole run: expired from the start, matching the filter as set up, never taken;
				// in a claimers-only case the only state change is idle/busy -> claimed by a patch-claim, which "takes" the record
				if taken[x] || ix.exp == 0 || ix.exp >= startT.UnixNano() || !c11stateOK(fs, ix.state) || (fg >= 0 && ix.grp != fg) {
					continue
				}
				if lim == 0 || int64(len(o.got)) < lim {
					return fail(violation("eligible_record_skipped", "%s(%v) [%d,%d] returned %d records although %s was expired, matching and unclaimed during the whole run", o.kind, o.op.A, o.call, o.ret, len(o.got), x))
				}
				for _, g := range o.got {
					if gi := initial[g.key]; gi != nil && gi.exp > ix.exp {
						return fail(violation("not_oldest_first", "%s(%v) took %s (expired %v before start) while the older %s (expired %v before start) stayed unclaimed during the whole run", o.kind, o.op.A, g.key, time.Duration(startT.UnixNano()-gi.exp), x, time.Duration(startT.UnixNano()-ix.exp)))
					}
				}
			}
		}
	}
	overl := false
	for i, a := range ops {
		for _, b := range ops[i+1:] {
			if a.client != b.client && a.call < b.ret && b.call < a.ret {
				if c.Prop == "C11" && isClaim(a) && isClaim(b) {
					overl = true
				}
				if c.Prop == "C12" && c11carriesCap(a) && c11carriesCap(b) {
					overl = true
				}
			}
		}
	}
	res.Verdict = "ok"
	if c.Prop == "C11" {
		res.Nontrivial = overl && claimedSomething
	} else {
		bounded := false
		for _, o := range ops {
			if c11carriesCap(o) && o.capHit {
				bounded = true
			}
		}
		res.Nontrivial = overl || (seq && bounded)
	}
	res.Fingerprint = fnv(out.stats.Hash, len(c.Ops))
	return res
}

func c11carriesCap(o *c11op) bool {
	switch o.kind {
	case "patchexp":
		return o.op.A[4] > 0
	case "setstate":
		return o.op.A[3] > 0
	case "capadd":
		return o.op.A[4] > 0
	case "shiftmatch":
		return o.op.A[8] > 0
	}
	return false
}

func c11fromTreasure(tr *hydrapb.Treasure) c11got {
	g := c11got{key: tr.Key}
	g.body, _ = c11decode(tr.BytesVal)
	if tr.ExpiredAt != nil {
		g.exp = tr.ExpiredAt.AsTime().UnixNano()
	}
	if tr.CreatedAt != nil {
		g.created = tr.CreatedAt.AsTime().UnixNano()
	}
	return g
}
