package zzharness

import (
	"fmt"
	"sort"
	"strings"
	"syscall"
	"testing"
	"time"

	hydrapb "github.com/hydraide/hydraide/sdk/go/hydraidego/v3/hydraidepbgo"
	"github.com/hydraide/hydraide/app/core/filesystem"
	"github.com/hydraide/hydraide/app/core/hydra/swamp/chronicler"
	v2 "github.com/hydraide/hydraide/app/core/hydra/swamp/chronicler/v2"
	"github.com/hydraide/hydraide/app/core/hydra/swamp/metadata"
	"github.com/hydraide/hydraide/app/core/hydra/swamp/treasure"
	"github.com/hydraide/hydraide/app/core/hydra/swamp/treasure/guard"
	"github.com/hydraide/hydraide/app/core/hydra/swamp/chronicler/v2/migrator"
	"github.com/hydraide/hydraide/app/name"
	"github.com/hydraide/hydraide/app/zzsim/simdisk"
	"github.com/hydraide/hydraide/app/zzsim/simrt"
)

// C23 — V1 to V2 migration preserves exactly the loadable data.
//
// Legacy multi-file swamps are produced by the real V1 engine (an in-process
// server with the legacy engine selected, small chunk sizes) from seeded
// write / modify / delete histories; what the legacy engine loads is recorded
// by reading every swamp back through a second V1 incarnation. Then the real
// migrator runs on the simulated disk (worker pool under the scheduler) with
// seeded options and, in half of the runs, injected I/O faults or a stale
// .hyd file left by an earlier attempt; finally a V2 incarnation (or, where
// migration reported failure, a V1 incarnation) reads everything back.

func init() {
	register(&Property{
		ID:    "C23",
		Level: "exploration",
		Rule: "cases = 1..4 legacy swamps x <=30 writes/modifies/deletes (chunk size 200..8192 bytes, all value kinds, metadata) produced by the real V1 engine; migrator options Verify/DeleteOld/Parallel seeded; fault plan: none | one failing file operation of the migration (EIO/ENOSPC/short write, operation index seeded over the operations the fault-free migration issues) | a stale .hyd next to the folder | the new file silently damaged when its writer closes it (cut, flipped byte, zeroed run) | one failing read of the migration (EIO/EACCES/EMFILE on a legacy chunk, a meta file or the verification); " +
			"oracle: for each swamp, migration reported success => V2 load == V1 load (keys, values, metadata) and the stored name == the swamp's name; reported failure => the V1 folder still loads exactly as before; non-trivial = at least one swamp with modified or deleted records was migrated, or a fault fired; distinct = hash of (history, options, fault, outcome)",
		Gen: genC23,
		Run: runC23,
		Sim: true,
		Assumptions: []string{"'what the legacy engine would load' is obtained from the legacy engine itself (second V1 incarnation), not from a model of the V1 format"},
		Real:        append([]string{"migrator.Run (findV1Swamps, loadV1Swamp, writeV2File, verifyMigration, deleteV1Files)", "chronicler V1 + filesystem + metadata (to produce and re-read legacy folders)"}, gwReal...),
		Stub:        gwStub,
	})
}

func genC23(seed uint64, tier string) Case {
	r := newRng(seed, "c23")
	c := Case{Prop: "C23", Seed: seed, Cfg: map[string]int64{}}
	c.Cfg["chunk"] = []int64{200, 500, 2000, 8192}[r.intn(4)]
	c.Cfg["verify"] = int64(r.intn(2))
	c.Cfg["delete_old"] = int64(r.intn(2))
	c.Cfg["parallel"] = int64(1 + r.intn(4))
	c.Cfg["fault"] = int64(r.pick(5, 4, 2, 2, 3)) // 0 none, 1 one failing op, 2 stale .hyd, 3 the new file is silently damaged when its writer closes it
	c.Cfg["fault_pos"] = int64(r.intn(1000))
	c.Cfg["fault_kind"] = int64(r.intn(3))
	nsw := 1 + r.intn(4)
	n := 2 + r.intn(30)
	wTick := 8
	if r.chance(3, 10) {
		// profile that makes the legacy writer split chunks and re-store modified records: several versions of a
		// key end up on disk, and the migration must pick one the legacy engine could load
		c.Cfg["chunk"] = 200
		c.Cfg["fault"] = 0
		nsw = 1 + r.intn(2)
		n = 12 + r.intn(20)
		wTick = 30
	}
	if r.chance(1, 3) {
		c.Cfg["direct"] = int64(1 + r.intn(3))
	}
	for i := 0; i < n; i++ {
		sw := int64(r.intn(nsw))
		key := int64(r.intn(6))
		switch r.pick(60, 20, 12, wTick) {
		case 0, 1:
			c.Ops = append(c.Ops, Op{K: "set", A: []int64{sw, key, int64(1 + r.intn(len(valueKinds)-1)), int64(r.intn(6)), int64(r.intn(32))}})
		case 2:
			c.Ops = append(c.Ops, Op{K: "del", A: []int64{sw, key}})
		default:
			c.Ops = append(c.Ops, Op{K: "tick", A: []int64{int64(500 + r.intn(2500))}})
		}
	}
	c.Sched = genSched(r)
	return c
}

func runC23(t *testing.T, c Case) (res Result) {
	names := []string{"legacy/data/one", "legacy/data/two", "legacy/other/three", "legacy/other/four"}
	var v *Result
	faultFired := false
	legacyDup := false // the legacy folder holds several versions of a key (seen by a fault-free migration of a copy)
	modified := false
	outcome := ""
	out := runSim(t, c.Sched, func() {
		disk := simdisk.New()
		// --- 1. produce legacy folders with the real V1 engine
		srv := startServerEngine(disk, 2, 1, false)
		srv.gw.DefaultFileSize = c.cfg("chunk", 8192)
		cl := &gwClient{srv: srv, island: 1, timeout: 120 * time.Second}
		chunk := c.cfg("chunk", 8192)
		wi := int64(1)
		cl.call("RegisterSwamp", func() {
			srv.gw.RegisterSwamp(ctxBg, &hydrapb.RegisterSwampRequest{SwampPattern: "legacy/*/*", CloseAfterIdle: 2, WriteInterval: &wi, MaxFileSize: &chunk})
		})
		seen := map[string]map[string]bool{}
		for i, op := range c.Ops {
			if cl.hung != "" {
				break
			}
			switch op.K {
			case "tick":
				simrt.Sleep(time.Duration(op.A[0]) * time.Millisecond)
			case "set":
				sw := names[op.A[0]%4]
				kind := valueKinds[int(op.A[2])%len(valueKinds)]
				if kind == "slice" || kind == "void" {
					kind = "string"
				}
				val := applySet(nil, genValue(kind, op.A[3]), op.A[4], op.A[3], time.Now().UnixNano())
				if _, err := cl.set(sw, []*hydrapb.KeyValuePair{toKV(keyName(op.A[1]), val)}, true, true); err != nil {
					r := violation("legacy_set_error", "op %d: %v", i, err)
					v = &r
					return
				}
				if seen[sw] == nil {
					seen[sw] = map[string]bool{}
				}
				if seen[sw][keyName(op.A[1])] {
					modified = true
				}
				seen[sw][keyName(op.A[1])] = true
			case "del":
				sw := names[op.A[0]%4]
				if len(seen[sw]) > 1 && seen[sw][keyName(op.A[1])] {
					cl.del(sw, []string{keyName(op.A[1])})
					delete(seen[sw], keyName(op.A[1]))
					modified = true
				}
			}
		}
		if cl.hung != "" || !srv.stop(5*time.Minute) {
			r := violation("legacy_engine_stuck", "the V1 incarnation did not finish (%s)", cl.hung)
			v = &r
			return
		}
		// --- 1b. further versions written through the legacy chronicler itself: records saved again by an object
		// that carries no file pointer are appended as new records, so a key occurs twice in one chunk file (the
		// legacy load keeps the later one) or in two chunk files
		if nd := c.cfg("direct", 0); nd > 0 {
			dr := newRng(c.Seed, "direct")
			prev := swapDisk(disk)
			for b := int64(0); b < nd; b++ {
				n := names[dr.intn(4)]
				folder := name.Load(n).GetFullHashPath(simRoot+"/data", 1, 1, 1000)
				if len(disk.Walk(folder)) == 0 {
					continue // this swamp was never written by the legacy server
				}
				ch := chronicler.New(folder, c.cfg("chunk", 8192), 1, filesystem.New(), metadata.New(folder))
				ch.DontSendFilePointer()
				var batch []treasure.Treasure
				for j := 1 + dr.intn(3); j > 0; j-- {
					key := keyName(int64(dr.intn(6)))
					tr := treasure.New(nil)
					g := tr.StartTreasureGuard(false, guard.BodyAuthID)
					tr.BodySetKey(g, key)
					tr.SetContentString(g, fmt.Sprintf("direct-%d-%d", b, j))
					tr.ReleaseTreasureGuard(g)
					batch = append(batch, tr)
				}
				id := simrt.GoID(func() { ch.Write(batch) })
				simrt.JoinIDs([]int32{id}, time.Minute)
				modified = true
			}
			swapDisk(prev)
		}
		// --- 2. what does the legacy engine load?
		var readAllOn func(d *simdisk.Disk, v2engine bool) (map[string]mswamp, string)
		readAll := func(v2engine bool) (map[string]mswamp, string) { return readAllOn(disk, v2engine) }
		readAllOn = func(d *simdisk.Disk, v2engine bool) (map[string]mswamp, string) {
			s := startServerEngine(d, 3600, 1, v2engine)
			k := &gwClient{srv: s, island: 1, timeout: 120 * time.Second}
			outm := map[string]mswamp{}
			for _, n := range names {
				ex, _ := k.isSwampExist(n)
				if !ex {
					continue
				}
				snap, err := k.snapshot(n)
				if err != nil {
					return nil, fmt.Sprintf("GetAll(%s): %v", n, err)
				}
				outm[n] = snap
			}
			if k.hung != "" {
				return nil, "request hung: " + k.hung
			}
			// stop without further writes
			s.stop(5 * time.Minute)
			return outm, ""
		}
		v1state, e := readAll(false)
		if e != "" {
			r := violation("legacy_read_error", "%s", e)
			v = &r
			return
		}
		if len(v1state) == 0 {
			outcome = "nothing_to_migrate"
			return
		}
		// --- 3. migrate (fault-free dry measurement on a clone to know the op range, then the real run)
		runMigration := func(d *simdisk.Disk) (*migrator.Result, error, bool) {
			prev := swapDisk(d)
			defer swapDisk(prev)
			m, err := migrator.New(migrator.Config{DataPath: simRoot + "/data", Verify: c.cfg("verify", 1) == 1, DeleteOld: c.cfg("delete_old", 0) == 1,
				Parallel: int(c.cfg("parallel", 2)), ProgressReport: time.Hour})
			if err != nil {
				return nil, err, true
			}
			var rr *migrator.Result
			var rerr error
			id := simrt.GoID(func() { rr, rerr = m.Run() })
			ok := simrt.JoinIDs([]int32{id}, 30*time.Minute)
			return rr, rerr, ok
		}
		fault := c.cfg("fault", 0)
		if fault == 2 {
			// a stale single-file swamp left next to the first legacy folder by an earlier, abandoned attempt
			for _, p := range disk.Walk(simRoot + "/data") {
				if strings.HasSuffix(p, "/meta") || strings.Contains(p, "/meta") {
					folder := p[:strings.LastIndex(p, "/")]
					prev := swapDisk(disk)
					disk.MkdirAll(folder[:strings.LastIndex(folder, "/")])
					w, err := v2.NewFileWriterWithName(folder+".hyd", 16384, "legacy/stale/name")
					if err == nil {
						w.WriteEntry(v2.Entry{Operation: v2.OpInsert, Key: "stale-key", Data: gobTreasure("stale-key", []byte("stale"))})
						w.Close()
					}
					swapDisk(prev)
					break
				}
			}
		}
		if fault == 1 {
			clone := disk.Clone()
			before := clone.OpCount()
			if rc, _, _ := runMigration(clone); rc != nil && rc.DuplicateKeys > 0 {
				legacyDup = true
			}
			total := clone.OpCount() - before
			if total > 0 {
				seq := disk.OpCount() + int(c.cfg("fault_pos", 0))%total
				f := simdisk.Fault{Errno: syscall.EIO, Short: -1}
				switch c.cfg("fault_kind", 0) {
				case 1:
					f = simdisk.Fault{Errno: syscall.ENOSPC, Short: -1}
				case 2:
					f = simdisk.Fault{Errno: syscall.EIO, Short: 7}
				}
				disk.SetFault(seq, f)
			}
		}
		if fault == 3 {
			disk.SetDamageOnClose(".hyd", int(c.cfg("fault_kind", 0)))
		}
		if fault == 4 {
			// one read of the migration (a legacy chunk, a meta file, the verification of the new file) fails
			clone := disk.Clone()
			before := clone.Stats().Reads
			if rc, _, _ := runMigration(clone); rc != nil && rc.DuplicateKeys > 0 {
				legacyDup = true
			}
			if total := clone.Stats().Reads - before; total > 0 {
				disk.SetReadFault(disk.Stats().Reads+int(c.cfg("fault_pos", 0))%total, []syscall.Errno{syscall.EIO, syscall.EACCES, syscall.EMFILE}[c.cfg("fault_kind", 0)%3])
			}
		}
		legacyImage := disk.Clone() // the legacy folders as the migration finds them
		rr, rerr, finished := runMigration(disk)
		faultFired = len(disk.Stats().FiredSeqs) > 0 || disk.Stats().SilentDamage > 0 || disk.Stats().ReadFaults > 0
		disk.ClearFaults()
		disk.SetDamageOnClose("", 0)
		if !finished {
			r := violation("migration_never_returns", "migrator.Run had not returned after 30 simulated minutes")
			v = &r
			return
		}
		if rerr != nil || rr == nil {
			outcome = "run_error"
			// a failed run must leave the legacy data intact
			after, e := readAll(false)
			if e != "" {
				r := violation("legacy_data_unreadable_after_failed_migration", "%s", e)
				v = &r
				return
			}
			if cls, det := compareStates(after, v1state); cls != "" {
				r := violation("legacy_data_changed_after_failed_migration_"+cls, "%s", det)
				v = &r
				return
			}
			return
		}
		var possible map[string]map[string][]*mrec // swamp -> key -> every record the legacy engine can load for it (nil entry = absent)
		if rr.DuplicateKeys > 0 || legacyDup {
			// (legacyDup: the fault-free migration of a copy saw the duplicates; a migration that failed while loading
			// reports none)
			// the legacy folder holds several versions of one key (the legacy writer can lose a record's file
			// pointer when it splits a chunk and then stores the next modification as a new record). Across chunk
			// files the version the legacy engine loads depends on its map iteration order (the last file wins), so
			// "what the legacy engine would load" is a set of states. It is enumerated exactly: the legacy load is
			// repeated with the file order rotated so that every file is the last one once.
			if len(rr.FailedSwamps) > 0 {
				outcome = "ambiguous_legacy_duplicates"
				return
			}
			nfiles := 0
			for _, p := range legacyImage.Walk(simRoot + "/data") {
				if !strings.HasSuffix(p, ".hyd") {
					nfiles++
				}
			}
			if nfiles > 48 {
				outcome = "ambiguous_legacy_duplicates"
				return
			}
			possible = map[string]map[string][]*mrec{}
			var states []map[string]mswamp
			for rot := 0; rot < nfiles; rot++ {
				simrt.SetMapRotate(int64(rot))
				st, e := readAllOn(legacyImage.Clone(), false)
				simrt.SetMapRotate(-1)
				if e != "" {
					r := violation("legacy_read_error", "%s", e)
					v = &r
					return
				}
				states = append(states, st)
			}
			for _, st := range states {
				for sw, recs := range st {
					if possible[sw] == nil {
						possible[sw] = map[string][]*mrec{}
					}
					for k := range recs {
						if _, ok := possible[sw][k]; !ok {
							possible[sw][k] = nil
						}
					}
				}
			}
			for sw, keys := range possible {
				for k := range keys {
					for _, st := range states {
						possible[sw][k] = append(possible[sw][k], st[sw][k]) // nil when that load does not have the key
					}
				}
			}
		}
		failed := map[string]bool{} // swamp names whose migration was reported as failed
		for _, f := range rr.FailedSwamps {
			for _, n := range names {
				p := name.Load(n).GetFullHashPath(simRoot+"/data", 1, 1, 1000)
				if p == f.Path {
					failed[n] = true
				}
			}
		}
		if len(rr.FailedSwamps) != len(failed) {
			r := violation("harness_cannot_map_failed_swamp", "failed paths %v", rr.FailedSwamps)
			v = &r
			return
		}
		outcome = fmt.Sprintf("ok=%d failed=%d", rr.SuccessfulSwamps, len(rr.FailedSwamps))
		if len(failed) == 0 && fault == 3 && c.cfg("verify", 0) == 0 {
			// silent damage without verification: the migrator was told nothing and had no means to notice; what it
			// reports as migrated is not judged (with Verify it must notice, and then the legacy data must be intact)
			return
		}
		// --- 4. read everything back through the new engine
		v2state, e := readAll(true)
		if e != "" {
			r := violation("migrated_data_unreadable", "%s (migration result: %s, fault fired: %v)", e, outcome, faultFired)
			v = &r
			return
		}
		if len(failed) == 0 && possible != nil {
			// every migrated record must be one the legacy engine can load, and nothing else may appear
			var sws []string
			for sw := range possible {
				sws = append(sws, sw)
			}
			for sw := range v2state {
				if possible[sw] == nil {
					sws = append(sws, sw)
				}
			}
			sort.Strings(sws)
			for _, sw := range sws {
				var ks []string
				for k := range possible[sw] {
					ks = append(ks, k)
				}
				for k := range v2state[sw] {
					if _, ok := possible[sw][k]; !ok {
						ks = append(ks, k)
					}
				}
				sort.Strings(ks)
				for _, k := range ks {
					got := v2state[sw][k]
					okAny := false
					var seen []string
					for _, want := range possible[sw][k] {
						switch {
						case want == nil && got == nil:
							okAny = true
						case want != nil && got != nil:
							if cls, _ := sameRecord(got, want); cls == "" {
								okAny = true
							}
						}
						if want == nil {
							seen = append(seen, "<absent>")
						} else {
							seen = append(seen, want.valueString())
						}
					}
					if !okAny {
						gs := "<absent>"
						if got != nil {
							gs = got.valueString()
						}
						r := violation("migrated_record_is_none_of_the_versions_the_legacy_engine_loads", "swamp %s key %q: migrated file loads %s, the legacy engine loads (over every chunk-file order) %v", sw, k, gs, seen)
						v = &r
						return
					}
				}
			}
			modified = true
		} else if len(failed) == 0 {
			if cls, det := compareStates(v2state, v1state); cls != "" {
				what := ""
				if fault == 2 {
					what = "_with_stale_hyd_file_present"
				} else if faultFired {
					what = "_after_io_fault_reported_as_success"
				}
				r := violation("migrated_data_differs"+what+"_"+cls, "migration reported success for every swamp, yet: %s", det)
				v = &r
				return
			}
			// names
			prev := swapDisk(disk)
			for _, p := range disk.Walk(simRoot + "/data") {
				if strings.HasSuffix(p, ".hyd") {
					n, err := v2.ReadSwampName(p)
					found := false
					for _, want := range names {
						if n == want {
							found = true
						}
					}
					if err != nil || !found {
						swapDisk(prev)
						r := violation("migrated_name_wrong", "%s reports name %q (err %v), expected one of the migrated swamps' names", p, n, err)
						v = &r
						return
					}
				}
			}
			swapDisk(prev)
		} else {
			// failed swamps must still load through the legacy engine exactly as before
			after, e := readAll(false)
			if e != "" {
				r := violation("legacy_data_unreadable_after_failed_migration", "%s", e)
				v = &r
				return
			}
			for n, want := range v1state {
				got, ok := after[n]
				if !failed[n] {
					ok = false // migrated successfully: judged through the new engine (its legacy folder may be gone or half deleted)
				}
				if !ok {
					// successfully migrated swamps may have lost their folder (DeleteOld): those are judged through V2
					if g2, ok2 := v2state[n]; ok2 {
						if cls, det := compareSwamp(g2, want); cls != "" {
							r := violation("migrated_data_differs_"+cls, "swamp %s: %s", n, det)
							v = &r
							return
						}
						continue
					}
					r := violation("swamp_lost_in_failed_migration", "swamp %s loads neither through the legacy engine nor through the new one after a migration that reported %s", n, outcome)
					v = &r
					return
				}
				if cls, det := compareSwamp(got, want); cls != "" {
					r := violation("legacy_data_changed_after_failed_migration_"+cls, "swamp %s: %s", n, det)
					v = &r
					return
				}
			}
		}
	})
	res.SimNanos = out.stats.SimNanos
	res.TraceHash = out.stats.Hash
	res.PreemptSteps = out.stats.PreemptSteps
	res.count("sched_steps", out.stats.Steps)
	if faultFired {
		res.count("runs_with_fault_fired", 1)
	}
	if c.cfg("fault", 0) == 2 {
		res.count("runs_with_stale_hyd", 1)
	}
	if out.rootPanic != "" {
		return violation("harness_panic", "root: %s", out.rootPanic)
	}
	if out.escaped != "" {
		return violation("goroutine_panic", "%s", oneLine(out.escaped, 400))
	}
	if v != nil {
		v.Counters, v.SimNanos, v.TraceHash, v.PreemptSteps = res.Counters, res.SimNanos, res.TraceHash, res.PreemptSteps
		return *v
	}
	if out.aborted || out.stats.OverBudget {
		return Result{Verdict: "inconclusive", Detail: "scheduler budget exhausted"}
	}
	res.Verdict = "ok"
	if outcome == "ambiguous_legacy_duplicates" {
		res.count("runs_skipped_ambiguous_legacy_duplicates", 1)
	}
	res.Nontrivial = outcome != "nothing_to_migrate" && outcome != "ambiguous_legacy_duplicates" && (modified || faultFired)
	res.Fingerprint = fnv(c.Cfg["chunk"], c.Cfg["verify"], c.Cfg["delete_old"], c.Cfg["fault"], outcome, len(c.Ops), c.Seed%1000)
	return res
}

func compareStates(got, want map[string]mswamp) (string, string) {
	var names []string
	for n := range want {
		names = append(names, n)
	}
	sort.Strings(names)
	for _, n := range names {
		g, ok := got[n]
		if !ok {
			return "swamp_missing", fmt.Sprintf("swamp %s does not exist any more", n)
		}
		if cls, det := compareSwamp(g, want[n]); cls != "" {
			return cls, fmt.Sprintf("swamp %s: %s", n, det)
		}
	}
	return "", ""
}
