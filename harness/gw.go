package zzharness

import (
	"bytes"
	"context"
	"fmt"
	"math"
	"sort"
	"strings"
	"time"

	hydrapb "github.com/hydraide/hydraide/sdk/go/hydraidego/v3/hydraidepbgo"
	"github.com/hydraide/hydraide/app/zzsim/simrt"
	"google.golang.org/protobuf/types/known/timestamppb"
)

// ---------------------------------------------------------------------------
// reference model of the key-value API (written from the documented
// semantics in docs/ and the proto comments, not from the implementation)

type mrec struct {
	Kind      string // void int8 int16 int32 int64 uint8 uint16 uint32 uint64 float32 float64 string bool bytes slice
	I         int64
	U         uint64
	F         float64
	S         string
	B         []byte
	Bo        bool
	Slice     []uint32
	CreatedAt int64 // unix nano, 0 = unset
	UpdatedAt int64
	ExpiredAt int64
	CreatedBy string
	UpdatedBy string
}

func (r *mrec) clone() *mrec {
	c := *r
	c.B = append([]byte(nil), r.B...)
	c.Slice = append([]uint32(nil), r.Slice...)
	return &c
}

func (r *mrec) valueString() string {
	switch r.Kind {
	case "void":
		return "void"
	case "int8", "int16", "int32", "int64":
		return fmt.Sprintf("%s(%d)", r.Kind, r.I)
	case "uint8", "uint16", "uint32", "uint64":
		return fmt.Sprintf("%s(%d)", r.Kind, r.U)
	case "float32", "float64":
		return fmt.Sprintf("%s(%v)", r.Kind, r.F)
	case "string":
		return fmt.Sprintf("string(%q)", r.S)
	case "bool":
		return fmt.Sprintf("bool(%v)", r.Bo)
	case "bytes":
		return fmt.Sprintf("bytes(%x)", r.B)
	case "slice":
		return fmt.Sprintf("slice(%v)", r.Slice)
	}
	return "?" + r.Kind
}

func (r *mrec) String() string {
	return fmt.Sprintf("%s c=%d/%q u=%d/%q e=%d", r.valueString(), r.CreatedAt, r.CreatedBy, r.UpdatedAt, r.UpdatedBy, r.ExpiredAt)
}

type mswamp map[string]*mrec

var valueKinds = []string{"void", "int8", "int16", "int32", "int64", "uint8", "uint16", "uint32", "uint64", "float32", "float64", "string", "bool", "bytes", "slice"}

// genValue builds a value of the given kind; sel selects among interesting
// values, 0 is always the zero value of the kind.
func genValue(kind string, sel int64) *mrec {
	r := &mrec{Kind: kind}
	switch kind {
	case "int8":
		r.I = []int64{0, 1, -1, 127, -128, 42}[sel%6]
	case "int16":
		r.I = []int64{0, 1, -1, 32767, -32768, 300}[sel%6]
	case "int32":
		r.I = []int64{0, 1, -1, math.MaxInt32, math.MinInt32, 70000}[sel%6]
	case "int64":
		r.I = []int64{0, 1, -1, math.MaxInt64, math.MinInt64, 1 << 40}[sel%6]
	case "uint8":
		r.U = []uint64{0, 1, 255, 7}[sel%4]
	case "uint16":
		r.U = []uint64{0, 1, 65535, 300}[sel%4]
	case "uint32":
		r.U = []uint64{0, 1, math.MaxUint32, 70000}[sel%4]
	case "uint64":
		r.U = []uint64{0, 1, math.MaxUint64, 1 << 40}[sel%4]
	case "float32":
		r.F = float64([]float32{0, 1.5, -2.25, math.MaxFloat32, 1e-30}[sel%5])
	case "float64":
		r.F = []float64{0, 1.5, -2.25, math.MaxFloat64, 1e-300, 3}[sel%6]
	case "string":
		r.S = []string{"", "a", "hello world", "\x00\xff", strings.Repeat("x", 300)}[sel%5]
	case "bool":
		r.Bo = sel%2 == 1
	case "bytes":
		// (the last one is a msgpack body {"n":1} behind the two byte marker: the record PatchTreasures works on)
		r.B = [][]byte{{}, {0}, {1, 2, 3}, bytes.Repeat([]byte{0xab}, 200), {0xC7, 0x00, 0x81, 0xa1, 'n', 0x01}, {0xC7, 0x00, 0x81, 0xa1, 'n', 0x01}}[sel%6]
	case "slice":
		r.Slice = [][]uint32{{}, {0}, {1, 2, 3}, {7, 7, 9}, {4294967295}}[sel%5]
		// a uint32 set: duplicates collapse, order of first appearance
		r.Slice = dedupU32(r.Slice)
	}
	return r
}

func dedupU32(in []uint32) []uint32 {
	seen := map[uint32]bool{}
	out := []uint32{}
	for _, v := range in {
		if !seen[v] {
			seen[v] = true
			out = append(out, v)
		}
	}
	return out
}

func ts(nano int64) *timestamppb.Timestamp {
	if nano == 0 {
		return nil
	}
	return timestamppb.New(time.Unix(0, nano))
}

func tsNano(t *timestamppb.Timestamp) int64 {
	if t == nil {
		return 0
	}
	return t.AsTime().UnixNano()
}

// toKV converts a model record to a Set request item.
func toKV(key string, r *mrec) *hydrapb.KeyValuePair {
	kv := &hydrapb.KeyValuePair{Key: key}
	switch r.Kind {
	case "void":
		v := true
		kv.VoidVal = &v
	case "int8":
		v := int32(r.I)
		kv.Int8Val = &v
	case "int16":
		v := int32(r.I)
		kv.Int16Val = &v
	case "int32":
		v := int32(r.I)
		kv.Int32Val = &v
	case "int64":
		v := r.I
		kv.Int64Val = &v
	case "uint8":
		v := uint32(r.U)
		kv.Uint8Val = &v
	case "uint16":
		v := uint32(r.U)
		kv.Uint16Val = &v
	case "uint32":
		v := uint32(r.U)
		kv.Uint32Val = &v
	case "uint64":
		v := r.U
		kv.Uint64Val = &v
	case "float32":
		v := float32(r.F)
		kv.Float32Val = &v
	case "float64":
		v := r.F
		kv.Float64Val = &v
	case "string":
		v := r.S
		kv.StringVal = &v
	case "bool":
		if r.Bo {
			kv.BoolVal = hydrapb.Boolean_TRUE.Enum()
		} else {
			kv.BoolVal = hydrapb.Boolean_FALSE.Enum()
		}
	case "bytes":
		kv.BytesVal = append([]byte{}, r.B...)
	case "slice":
		kv.Uint32Slice = append([]uint32{}, r.Slice...)
	}
	kv.CreatedAt = ts(r.CreatedAt)
	kv.UpdatedAt = ts(r.UpdatedAt)
	kv.ExpiredAt = ts(r.ExpiredAt)
	if r.CreatedBy != "" {
		kv.CreatedBy = &r.CreatedBy
	}
	if r.UpdatedBy != "" {
		kv.UpdatedBy = &r.UpdatedBy
	}
	return kv
}

// fromTreasure converts a response item to model form.
func fromTreasure(t *hydrapb.Treasure) *mrec {
	r := &mrec{Kind: "void"}
	switch {
	case t.Int8Val != nil:
		r.Kind, r.I = "int8", int64(*t.Int8Val)
	case t.Int16Val != nil:
		r.Kind, r.I = "int16", int64(*t.Int16Val)
	case t.Int32Val != nil:
		r.Kind, r.I = "int32", int64(*t.Int32Val)
	case t.Int64Val != nil:
		r.Kind, r.I = "int64", *t.Int64Val
	case t.Uint8Val != nil:
		r.Kind, r.U = "uint8", uint64(*t.Uint8Val)
	case t.Uint16Val != nil:
		r.Kind, r.U = "uint16", uint64(*t.Uint16Val)
	case t.Uint32Val != nil:
		r.Kind, r.U = "uint32", uint64(*t.Uint32Val)
	case t.Uint64Val != nil:
		r.Kind, r.U = "uint64", *t.Uint64Val
	case t.Float32Val != nil:
		r.Kind, r.F = "float32", float64(*t.Float32Val)
	case t.Float64Val != nil:
		r.Kind, r.F = "float64", *t.Float64Val
	case t.StringVal != nil:
		r.Kind, r.S = "string", *t.StringVal
	case t.BoolVal != nil:
		r.Kind, r.Bo = "bool", *t.BoolVal == hydrapb.Boolean_TRUE
	case t.BytesVal != nil:
		r.Kind, r.B = "bytes", t.BytesVal
	case t.Uint32Slice != nil:
		r.Kind, r.Slice = "slice", t.Uint32Slice
	}
	r.CreatedAt = tsNano(t.CreatedAt)
	r.UpdatedAt = tsNano(t.UpdatedAt)
	r.ExpiredAt = tsNano(t.ExpiredAt)
	if t.CreatedBy != nil {
		r.CreatedBy = *t.CreatedBy
	}
	if t.UpdatedBy != nil {
		r.UpdatedBy = *t.UpdatedBy
	}
	return r
}

// sameRecord compares a response with the model. It returns "" or a
// (class, detail) describing the first difference.
func sameRecord(got, want *mrec) (string, string) {
	if got.Kind != want.Kind {
		zero := ""
		if isZeroValue(want) {
			zero = "_of_zero_value"
		}
		return "value_type_differs" + zero + "_" + want.Kind + "_reads_as_" + got.Kind, fmt.Sprintf("stored %s, read back %s", want.valueString(), got.valueString())
	}
	eq := true
	switch want.Kind {
	case "int8", "int16", "int32", "int64":
		eq = got.I == want.I
	case "uint8", "uint16", "uint32", "uint64":
		eq = got.U == want.U
	case "float32", "float64":
		eq = got.F == want.F
	case "string":
		eq = got.S == want.S
	case "bool":
		eq = got.Bo == want.Bo
	case "bytes":
		eq = bytes.Equal(got.B, want.B)
	case "slice":
		eq = fmt.Sprint(got.Slice) == fmt.Sprint(want.Slice)
	}
	if !eq {
		return "value_differs_" + want.Kind, fmt.Sprintf("stored %s, read back %s", want.valueString(), got.valueString())
	}
	switch {
	case got.CreatedAt != want.CreatedAt:
		return "created_at_differs", fmt.Sprintf("createdAt stored %d read %d", want.CreatedAt, got.CreatedAt)
	case got.UpdatedAt != want.UpdatedAt:
		return "updated_at_differs", fmt.Sprintf("updatedAt stored %d read %d", want.UpdatedAt, got.UpdatedAt)
	case got.ExpiredAt != want.ExpiredAt:
		return "expired_at_differs", fmt.Sprintf("expiredAt stored %d read %d", want.ExpiredAt, got.ExpiredAt)
	case got.CreatedBy != want.CreatedBy:
		return "created_by_differs", fmt.Sprintf("createdBy stored %q read %q", want.CreatedBy, got.CreatedBy)
	case got.UpdatedBy != want.UpdatedBy:
		return "updated_by_differs", fmt.Sprintf("updatedBy stored %q read %q", want.UpdatedBy, got.UpdatedBy)
	}
	return "", ""
}

func isZeroValue(r *mrec) bool {
	switch r.Kind {
	case "int8", "int16", "int32", "int64":
		return r.I == 0
	case "uint8", "uint16", "uint32", "uint64":
		return r.U == 0
	case "float32", "float64":
		return r.F == 0
	case "string":
		return r.S == ""
	case "bool":
		return !r.Bo
	case "bytes":
		return len(r.B) == 0
	case "slice":
		return len(r.Slice) == 0
	}
	return false
}

// ---------------------------------------------------------------------------
// client: every RPC runs in its own managed goroutine and must return within
// a bounded amount of simulated time

type gwClient struct {
	srv     *simServer
	island  uint64
	timeout time.Duration
	hung    string // set when a request did not return
	inflight int   // requests in progress (reach probe: background file writes that overlap a request)
}

var ctxBg = context.Background()

// call runs f as one request. It reports false when the request did not
// return within the timeout (a request that hangs is a finding by itself).
func (c *gwClient) call(name string, f func()) bool {
	if c.hung != "" {
		return false
	}
	c.inflight++
	defer func() { c.inflight-- }()
	id := simrt.GoID(f)
	if id < 0 {
		return false
	}
	if !simrt.JoinIDs([]int32{id}, c.timeout) {
		c.hung = name
		return false
	}
	return true
}

func (c *gwClient) register(pattern string, inMemory bool, closeAfterIdle, writeInterval int64) error {
	var err error
	c.call("RegisterSwamp", func() {
		_, err = c.srv.gw.RegisterSwamp(ctxBg, &hydrapb.RegisterSwampRequest{SwampPattern: pattern, IsInMemorySwamp: inMemory, CloseAfterIdle: closeAfterIdle, WriteInterval: &writeInterval})
	})
	return err
}

func (c *gwClient) set(swamp string, kvs []*hydrapb.KeyValuePair, create, overwrite bool) (resp *hydrapb.SetResponse, err error) {
	c.call("Set", func() {
		resp, err = c.srv.gw.Set(ctxBg, &hydrapb.SetRequest{Swamps: []*hydrapb.SwampRequest{{IslandID: c.island, SwampName: swamp, KeyValues: kvs, CreateIfNotExist: create, Overwrite: overwrite}}})
	})
	return
}

func (c *gwClient) get(swamp string, keys []string) (resp *hydrapb.GetResponse, err error) {
	c.call("Get", func() {
		resp, err = c.srv.gw.Get(ctxBg, &hydrapb.GetRequest{Swamps: []*hydrapb.GetSwamp{{IslandID: c.island, SwampName: swamp, Keys: keys}}})
	})
	return
}

func (c *gwClient) getAll(swamp string) (resp *hydrapb.GetAllResponse, err error) {
	c.call("GetAll", func() {
		resp, err = c.srv.gw.GetAll(ctxBg, &hydrapb.GetAllRequest{IslandID: c.island, SwampName: swamp})
	})
	return
}

func (c *gwClient) getByKeys(swamp string, keys []string) (resp *hydrapb.GetByKeysResponse, err error) {
	c.call("GetByKeys", func() {
		resp, err = c.srv.gw.GetByKeys(ctxBg, &hydrapb.GetByKeysRequest{IslandID: c.island, SwampName: swamp, Keys: keys})
	})
	return
}

func (c *gwClient) del(swamp string, keys []string) (resp *hydrapb.DeleteResponse, err error) {
	c.call("Delete", func() {
		resp, err = c.srv.gw.Delete(ctxBg, &hydrapb.DeleteRequest{Swamps: []*hydrapb.DeleteRequest_SwampKeys{{IslandID: c.island, SwampName: swamp, Keys: keys}}})
	})
	return
}

func (c *gwClient) count(swamp string) (resp *hydrapb.CountResponse, err error) {
	c.call("Count", func() {
		resp, err = c.srv.gw.Count(ctxBg, &hydrapb.CountRequest{Swamps: []*hydrapb.CountRequest_SwampIdentifier{{IslandID: c.island, SwampName: swamp}}})
	})
	return
}

func (c *gwClient) isSwampExist(swamp string) (exist bool, err error) {
	c.call("IsSwampExist", func() {
		r, e := c.srv.gw.IsSwampExist(ctxBg, &hydrapb.IsSwampExistRequest{IslandID: c.island, SwampName: swamp})
		err = e
		if r != nil {
			exist = r.IsExist
		}
	})
	return
}

func (c *gwClient) isKeyExist(swamp, key string) (exist bool, err error) {
	c.call("IsKeyExist", func() {
		r, e := c.srv.gw.IsKeyExist(ctxBg, &hydrapb.IsKeyExistRequest{IslandID: c.island, SwampName: swamp, Key: key})
		err = e
		if r != nil {
			exist = r.IsExist
		}
	})
	return
}

func (c *gwClient) areKeysExist(swamp string, keys []string) (res map[string]bool, err error) {
	c.call("AreKeysExist", func() {
		r, e := c.srv.gw.AreKeysExist(ctxBg, &hydrapb.AreKeysExistRequest{IslandID: c.island, SwampName: swamp, Keys: keys})
		err = e
		if r != nil {
			res = r.Results
		}
	})
	return
}

func (c *gwClient) shiftByKeys(swamp string, keys []string) (resp *hydrapb.ShiftByKeysResponse, err error) {
	c.call("ShiftByKeys", func() {
		resp, err = c.srv.gw.ShiftByKeys(ctxBg, &hydrapb.ShiftByKeysRequest{IslandID: c.island, SwampName: swamp, Keys: keys})
	})
	return
}

func (c *gwClient) destroy(swamp string) (err error) {
	c.call("Destroy", func() {
		_, err = c.srv.gw.Destroy(ctxBg, &hydrapb.DestroyRequest{IslandID: c.island, SwampName: swamp})
	})
	return
}

func (c *gwClient) incInt64(swamp, key string, by int64, cond *hydrapb.IncrementInt64Condition, ifNot, ifEx *hydrapb.IncrementRequestMetadata) (resp *hydrapb.IncrementInt64Response, err error) {
	c.call("IncrementInt64", func() {
		resp, err = c.srv.gw.IncrementInt64(ctxBg, &hydrapb.IncrementInt64Request{IslandID: c.island, SwampName: swamp, Key: key, IncrementBy: by, Condition: cond, SetIfNotExist: ifNot, SetIfExist: ifEx})
	})
	return
}

func (c *gwClient) slicePush(swamp, key string, vals []uint32) (err error) {
	c.call("Uint32SlicePush", func() {
		_, err = c.srv.gw.Uint32SlicePush(ctxBg, &hydrapb.AddToUint32SlicePushRequest{IslandID: c.island, SwampName: swamp, KeySlicePairs: []*hydrapb.KeySlicePair{{Key: key, Values: vals}}})
	})
	return
}

func (c *gwClient) sliceDelete(swamp, key string, vals []uint32) (err error) {
	c.call("Uint32SliceDelete", func() {
		_, err = c.srv.gw.Uint32SliceDelete(ctxBg, &hydrapb.Uint32SliceDeleteRequest{IslandID: c.island, SwampName: swamp, KeySlicePairs: []*hydrapb.KeySlicePair{{Key: key, Values: vals}}})
	})
	return
}

func (c *gwClient) sliceSize(swamp, key string) (size int64, err error) {
	c.call("Uint32SliceSize", func() {
		r, e := c.srv.gw.Uint32SliceSize(ctxBg, &hydrapb.Uint32SliceSizeRequest{IslandID: c.island, SwampName: swamp, Key: key})
		err = e
		if r != nil {
			size = r.Size
		}
	})
	return
}

func (c *gwClient) sliceHas(swamp, key string, v uint32) (has bool, err error) {
	c.call("Uint32SliceIsValueExist", func() {
		r, e := c.srv.gw.Uint32SliceIsValueExist(ctxBg, &hydrapb.Uint32SliceIsValueExistRequest{IslandID: c.island, SwampName: swamp, Key: key, Value: v})
		err = e
		if r != nil {
			has = r.IsExist
		}
	})
	return
}

// snapshot reads the whole swamp through GetAll into model form.
func (c *gwClient) snapshot(swamp string) (mswamp, error) {
	resp, err := c.getAll(swamp)
	if err != nil {
		return nil, err
	}
	out := mswamp{}
	for _, t := range resp.GetTreasures() {
		out[t.Key] = fromTreasure(t)
	}
	return out, nil
}

// compareSwamp compares a snapshot with the model swamp.
func compareSwamp(got, want mswamp) (string, string) {
	var keys []string
	for k := range want {
		keys = append(keys, k)
	}
	sort.Strings(keys)
	for _, k := range keys {
		g, ok := got[k]
		if !ok {
			return "record_missing", fmt.Sprintf("key %q (%s) is missing", k, want[k].valueString())
		}
		if cl, det := sameRecord(g, want[k]); cl != "" {
			return cl, fmt.Sprintf("key %q: %s", k, det)
		}
	}
	var extra []string
	for k := range got {
		if _, ok := want[k]; !ok {
			extra = append(extra, k)
		}
	}
	sort.Strings(extra)
	if len(extra) > 0 {
		return "record_resurrected", fmt.Sprintf("keys %v are present but were deleted or never written", extra)
	}
	return "", ""
}
