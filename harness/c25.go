package zzharness

import (
	"bytes"
	"fmt"
	"sort"
	"strings"
	"syscall"
	"testing"

	"github.com/hydraide/hydraide/app/core/hydra/swamp/beacon"
	"github.com/hydraide/hydraide/app/core/hydra/swamp/chronicler"
	v2 "github.com/hydraide/hydraide/app/core/hydra/swamp/chronicler/v2"
	"github.com/hydraide/hydraide/app/core/hydra/swamp/treasure"
	"github.com/hydraide/hydraide/app/zzsim/simdisk"
	"github.com/hydraide/hydraide/app/zzsim/sos"
)

// C25 — disk write failures never corrupt durable data.
//
// The same histories as C02 are executed while the simulated disk fails
// chosen operations: EIO or ENOSPC with 0..n-1 bytes applied (short write) on
// writes, errors on fsync, rename, create, truncate; single faults, pairs, and
// "disk full until cleared" windows. Afterwards the fault is cleared, three
// more records are written and synced, the swamp is closed and reloaded.
//
// Oracle, per key: a record is *certain* when its write and the barrier
// (Sync/Close) that covered it both completed with no fault fired in between.
// The reloaded value of a key must be the effect of its last certain record or
// of any later (uncertain) one - never something else, and never nothing when
// a certain record exists. Un-acknowledged data may be lost, never wrong.

func init() {
	register(&Property{
		ID:    "C25",
		Level: "fault_enumeration",
		Rule: "for each seeded write history (as C02) the fault-free run is measured, then the history is re-executed once per (operation index x fault kind) - all of them in the thorough tier, a seeded sample of 24 in the quick tier - " +
			"with fault kinds {EIO 0 bytes, EIO half, EIO n-1 bytes, ENOSPC 0 bytes} plus sampled double faults and disk-full windows; non-trivial = a fault actually fired; distinct = hash of (history, fault op, kind)",
		Gen: genC25,
		Run: runC25,
		Assumptions: []string{"a failed write applies a prefix of its bytes; a failed fsync/rename/create applies nothing", "no crash in this property: the page cache keeps successfully written bytes (crash + fault combinations are C02's)"},
		Real:        storageReal,
		Stub:        storageStub,
	})
}

func genC25(seed uint64, tier string) Case {
	r := newRng(seed, "c25")
	c := Case{Prop: "C25", Seed: seed, Cfg: map[string]int64{}}
	c.Cfg["layer"] = int64(r.pick(1, 3))
	c.Cfg["block"] = []int64{64, 200, 1024, 4096, 16384}[r.intn(5)]
	c.Cfg["thr"] = []int64{30, 10, 60}[r.intn(3)]
	maxOps := 25
	if tier == "thorough" {
		maxOps = 80
		c.Cfg["thorough"] = 1
	}
	c.Ops = genSmallStorageOps(r, maxOps, c.Cfg["layer"] == 1 && r.chance(1, 3))
	return c
}

type faultSpec struct {
	seq, errno, short int // short: -1 none applied, -2 half, -3 all but one byte
	seq2              int // second fault (or -1)
	fullTo            int // >0: disk full window [seq, fullTo)
}

func (f faultSpec) install(d *simdisk.Disk) {
	errno := syscall.EIO
	if f.errno == 1 {
		errno = syscall.ENOSPC
	}
	if f.fullTo > 0 {
		d.SetFull(f.seq, f.fullTo)
		return
	}
	d.SetFault(f.seq, simdisk.Fault{Errno: errno, Short: f.short})
	if f.seq2 >= 0 {
		d.SetFault(f.seq2, simdisk.Fault{Errno: errno, Short: f.short})
	}
}

func runC25(t *testing.T, c Case) (res Result) {
	defer func() {
		if r := recover(); r != nil {
			res = violation("panic", "engine panicked: %v", r)
		}
	}()
	// fault-free measurement run
	s0 := newStRun(c)
	s0.res = &res
	s0.exec(c)
	if s0.failed != nil {
		return *s0.failed
	}
	total := s0.d.OpCount()
	r := newRng(c.Seed, "c25faults")
	var specs []faultSpec
	if _, ok := c.Cfg["fault_seq"]; ok {
		specs = []faultSpec{{seq: int(c.Cfg["fault_seq"]), errno: int(c.cfg("fault_errno", 0)), short: int(c.cfg("fault_short", -1)),
			seq2: int(c.cfg("fault_seq2", -1)), fullTo: int(c.cfg("fault_full_to", 0))}}
	} else {
		kinds := [][2]int{{0, -1}, {0, -2}, {0, -3}, {1, -1}}
		if c.cfg("thorough", 0) == 1 {
			for sq := 0; sq < total; sq++ {
				for _, k := range kinds {
					specs = append(specs, faultSpec{seq: sq, errno: k[0], short: k[1], seq2: -1})
				}
			}
		} else {
			for i := 0; i < 24 && total > 0; i++ {
				k := kinds[r.intn(len(kinds))]
				specs = append(specs, faultSpec{seq: r.intn(total), errno: k[0], short: k[1], seq2: -1})
			}
		}
		// double faults and full windows
		for i := 0; i < 6 && total > 1; i++ {
			a := r.intn(total - 1)
			specs = append(specs, faultSpec{seq: a, errno: r.intn(2), short: -1, seq2: a + 1 + r.intn(min(6, total-a-1))})
			specs = append(specs, faultSpec{seq: a, fullTo: a + 1 + r.intn(min(12, total-a))})
		}
	}
	histHash := fnv(c.Seed, len(c.Ops), total)
	for _, f := range specs {
		if v := runWithFault(c, f, &res); v != nil {
			v.Counters = res.Counters
			v.Detail = fmt.Sprintf("%s [replay with cfg fault_seq=%d fault_errno=%d fault_short=%d fault_seq2=%d fault_full_to=%d]", v.Detail, f.seq, f.errno, f.short, f.seq2, f.fullTo)
			return *v
		}
		res.FPs = append(res.FPs, fnv(histHash, f.seq, f.errno, f.short, f.seq2, f.fullTo))
	}
	res.Verdict = "ok"
	res.Nontrivial = res.Counters["runs_with_fault_fired"] > 0
	res.Fingerprint = fnv(histHash, len(specs))
	res.TraceHash = fnv(total, res.Counters["runs_with_fault_fired"], res.Counters["uncertain_entries"])
	res.count("histories", 1)
	return res
}

func runWithFault(c Case, f faultSpec, res *Result) *Result {
	s := newStRun(c)
	s.res = &Result{}
	f.install(s.d)
	s.exec(c)
	fired := s.d.Stats().FiredSeqs
	s.d.ClearFaults()
	res.count("fault_runs", 1)
	if len(fired) == 0 {
		return nil // the fault landed on an operation that was never issued in this (diverged) run
	}
	res.count("runs_with_fault_fired", 1)
	for k, v := range s.d.Stats().FaultsFired {
		res.count("fired:"+k, int64(v))
	}
	kind, path := s.d.LastFault()
	phase := simdisk.OpName(kind)
	if strings.HasSuffix(path, ".compact") {
		phase += "_on_compaction_temp"
	}
	if s.failed != nil {
		// a re-open failed twice although the fault was single: the swamp became unusable
		v := violation("fault_at_"+phase+"_swamp_cannot_be_reopened", "%s", s.failed.Detail)
		return &v
	}
	// the fault has cleared: later writes must be stored and recoverable. That holds for the writes the history
	// itself goes on to make on the same, still open writer/chronicler: one that is reported as failed although
	// no fault fired during it or after it was refused by a disk that is healthy again.
	if len(fired) > 0 {
		last := fired[len(fired)-1]
		for i := range s.entries {
			e := &s.entries[i]
			if e.errLogged && !e.faultDuring && e.opAt > last {
				v := violation("fault_at_"+phase+"_later_write_on_the_open_swamp_fails", "fault fired at op(s) %v (%s); write #%d of the history (key %s), issued at disk op %d on the same open swamp after the fault had cleared, was reported as failed: %s", fired, phase, i, shortKey(e.key), e.opAt, oneLine(s.logs.lastError(), 300))
				return &v
			}
		}
	}
	sos.SetDisk(s.d)
	logs := captureLogs()
	post := map[string][]byte{}
	postKeys := []string{"post-a", genKey(0, 9, 77), "post-c"}
	var postErr error
	if s.layer == 0 {
		w, err := v2.NewFileWriterWithName(stHyd, s.block, s.name)
		if err != nil {
			postErr = fmt.Errorf("open: %v", err)
		} else {
			for i, k := range postKeys {
				val := []byte(fmt.Sprintf("post-%d", i))
				if err := w.WriteEntry(v2.Entry{Operation: v2.OpInsert, Key: k, Data: val}); err != nil {
					postErr = fmt.Errorf("WriteEntry: %v", err)
				}
				post[k] = val
			}
			if err := w.Close(); err != nil {
				postErr = fmt.Errorf("Close: %v", err)
			}
		}
	} else {
		ch := chronicler.NewV2WithConfig(stFolder, 2, s.block, s.thr)
		ch.CreateDirectoryIfNotExists()
		ch.RegisterLiveCountFunction(func() int { return len(s.model) + 3 })
		ch.Load(beacon.New())
		for i, k := range postKeys {
			val := []byte(fmt.Sprintf("post-%d", i))
			ch.Write([]treasure.Treasure{mkTreasure(k, val)})
			post[k] = val
		}
		if err := ch.Sync(); err != nil {
			postErr = fmt.Errorf("Sync: %v", err)
		}
		if err := ch.Close(); err != nil {
			postErr = fmt.Errorf("Close: %v", err)
		}
		if e := logs.find("cannot write entry"); e != "" {
			postErr = fmt.Errorf("%s", e)
		} else if e := logs.find("cannot initialize swamp file writer"); e != "" {
			postErr = fmt.Errorf("%s", e)
		}
	}
	if postErr != nil {
		v := violation("fault_at_"+phase+"_writes_fail_after_fault_cleared", "fault fired at op(s) %v (%s); after it cleared, writing 3 records + sync + close failed: %v", fired, phase, postErr)
		return &v
	}
	got, err := loadImage(s.d.Clone(), s.layer, s.block, s.thr)
	if err != nil {
		v := violation("fault_at_"+phase+"_swamp_unreadable", "fault fired at op(s) %v (%s); after clear + 3 synced writes + close the swamp does not load: %v", fired, phase, err)
		return &v
	}
	// certainty of every record
	firstFault, lastFault := fired[0], fired[len(fired)-1]
	certain := make([]bool, len(s.entries))
	for i := range s.entries {
		e := &s.entries[i]
		if e.errLogged || e.faultDuring {
			continue
		}
		// covering barrier: first successful barrier with n > i
		cov := -1
		for _, b := range s.durs {
			if b.n > i {
				cov = b.opAt
				break
			}
		}
		if cov < 0 {
			continue
		}
		if cov <= firstFault || e.opAt > lastFault {
			certain[i] = true
		}
	}
	for i := range certain {
		if !certain[i] {
			res.count("uncertain_entries", 1)
		} else {
			res.count("certain_entries", 1)
		}
	}
	// per key acceptable outcomes
	keys := map[string]bool{}
	for i := range s.entries {
		keys[s.entries[i].key] = true
	}
	var gotKeys []string
	for k := range got {
		gotKeys = append(gotKeys, k)
	}
	sort.Strings(gotKeys)
	for _, k := range gotKeys {
		if _, isPost := post[k]; !isPost && !keys[k] {
			v := violation("fault_at_"+phase+"_record_never_written_appears", "fault at op(s) %v: key %s was never written but is present after reload", fired, shortKey(k))
			return &v
		}
	}
	for _, k := range postKeys {
		val := post[k]
		if g, ok := got[k]; !ok || !bytes.Equal(g, val) {
			v := violation("fault_at_"+phase+"_hides_later_records", "fault at op(s) %v (%s): record %s written and synced after the fault cleared is missing or wrong after reload (present=%v)", fired, phase, shortKey(k), ok)
			return &v
		}
	}
	var sorted []string
	for k := range keys {
		sorted = append(sorted, k)
	}
	sort.Strings(sorted)
	for _, k := range sorted {
		g, present := got[k]
		okOutcome := false
		sawCertain := false
		for i := len(s.entries) - 1; i >= 0 && !sawCertain; i-- {
			e := &s.entries[i]
			if e.key != k {
				continue
			}
			if e.del && !present || !e.del && present && bytes.Equal(g, e.val) {
				okOutcome = true
			}
			if certain[i] {
				sawCertain = true
			}
		}
		if !sawCertain && !present {
			okOutcome = true // nothing certain was ever stored for this key
		}
		if !okOutcome {
			cl := "hides_earlier_records"
			if present {
				cl = "wrong_value"
			}
			v := violation("fault_at_"+phase+"_"+cl, "fault at op(s) %v (%s): key %s reloads as present=%v (%d bytes), which is neither its last certain record nor any later one", fired, phase, shortKey(k), present, len(g))
			return &v
		}
	}
	return nil
}
