package zzharness

import (
	"os"
	"context"
	"encoding/binary"
	"fmt"
	"sort"
	"strings"
	"testing"
	"time"

	hydrapb "github.com/hydraide/hydraide/sdk/go/hydraidego/v3/hydraidepbgo"
	v2 "github.com/hydraide/hydraide/app/core/hydra/swamp/chronicler/v2"
	"github.com/hydraide/hydraide/app/server/explorer"
	"github.com/hydraide/hydraide/app/zzsim/simdisk"
	"github.com/hydraide/hydraide/app/zzsim/simrt"
	"github.com/hydraide/hydraide/app/zzsim/sos"
)

// C29 — fast swamp-name discovery agrees with the stored name.
//
// Swamps with varied names (several sanctuaries / realms, unusual characters,
// several islands) are written, appended to across sessions, compacted,
// emptied and destroyed through the gateway of an in-process server; a file
// in the legacy header format (name in a metadata entry) is planted. Then
// every .hyd file on the simulated disk is looked up with the fast name
// reader and the explorer scans the data directory (its worker goroutines run
// under the scheduler); both must agree with the model. (Freshly written and
// appended files are additionally checked in every C01 run.)

func init() {
	register(&Property{
		ID:    "C29",
		Level: "exploration",
		Rule: "cases (a quarter of them starting on the crash image of the first swamp file's creation) = 2..8 swamps with names from seeded part pools (unicode, dots, dashes, spaces, long parts) on islands 1..3, <=40 operations (Set / Delete / CompactSwamp / Destroy / idle eviction / restart / plant a legacy-format file), then ReadSwampName on every .hyd file and an explorer scan + listing; " +
			"non-trivial = at least one file was re-opened and appended to, or compacted, before the lookup; distinct = hash of (names, op kinds, final set)",
		Gen: genC29,
		Run: runC29,
		Sim: true,
		Assumptions: []string{"the listing is compared after a graceful stop, when every writer has closed its file"},
		Real:        append([]string{"v2.ReadSwampName", "explorer.Scan / scanFile / hierarchical index"}, gwReal...),
		Stub:        gwStub,
	})
}

var c29Parts = []string{"users", "orders", "a", "Ünï-cødé", "with.dot", "with-dash", "with space", "x_y", "0", strings.Repeat("long", 20)}

func genC29(seed uint64, tier string) Case {
	r := newRng(seed, "c29")
	c := Case{Prop: "C29", Seed: seed, Cfg: map[string]int64{}}
	c.Cfg["write_interval"] = int64(r.intn(2))
	nsw := 2 + r.intn(7)
	c.Cfg["nsw"] = int64(nsw)
	c.Cfg["names"] = int64(r.next() >> 1)
	if r.chance(1, 4) {
		// the run starts on the disk image a crash left behind while the first swamp's file was being created
		// (cut: how many of the file's first operations - create, header, name, first block, ... - made it to the disk;
		// tear: how much of the next write did)
		c.Cfg["crashnew"] = 1
		c.Cfg["crash_cut"] = int64(r.intn(5))
		c.Cfg["crash_tear"] = int64(r.intn(4))
	}
	n := 4 + r.intn(37)
	for i := 0; i < n; i++ {
		sw := int64(r.intn(nsw))
		switch r.pick(55, 12, 8, 5, 8, 6, 4, 5) {
		case 7:
			// a large swamp: >= 100 entries of which 26..40% are superseded, so that the file is fragmented enough for
			// the compaction that runs when a swamp is loaded, but not for the one that runs when it is closed
			nIns := int64(100 + r.intn(40))
			c.Ops = append(c.Ops, Op{K: "bulk", A: []int64{sw, nIns, nIns * int64(35+r.intn(30)) / 100}})
		case 0:
			c.Ops = append(c.Ops, Op{K: "set", A: []int64{sw, int64(r.intn(5))}})
		case 1:
			c.Ops = append(c.Ops, Op{K: "del", A: []int64{sw, int64(r.intn(5))}})
		case 2:
			c.Ops = append(c.Ops, Op{K: "compact", A: []int64{sw}})
		case 3:
			c.Ops = append(c.Ops, Op{K: "destroy", A: []int64{sw}})
		case 4:
			c.Ops = append(c.Ops, Op{K: "idle"})
		case 5:
			c.Ops = append(c.Ops, Op{K: "restart"})
		default:
			c.Ops = append(c.Ops, Op{K: "legacy", A: []int64{int64(r.intn(3))}})
		}
	}
	c.Sched = genSched(r)
	return c
}

func runC29(t *testing.T, c Case) (res Result) {
	wi := c.cfg("write_interval", 1)
	nr := newRng(uint64(c.cfg("names", 1)), "names")
	nsw := int(c.cfg("nsw", 3))
	type swm struct {
		name   string
		island uint64
		keys   map[string]bool
	}
	var sws []*swm
	used := map[string]bool{}
	for len(sws) < nsw {
		n := fmt.Sprintf("%s/%s/%s", []string{"sanctA", "sanct-B", "s.c"}[nr.intn(3)], c29Parts[nr.intn(len(c29Parts))], c29Parts[nr.intn(len(c29Parts))])
		if used[n] {
			n += fmt.Sprint(len(sws))
		}
		used[n] = true
		sws = append(sws, &swm{name: n, island: uint64(1 + nr.intn(3)), keys: map[string]bool{}})
	}
	if os.Getenv("VERIF_DEBUG") != "" {
		for i, s := range sws {
			fmt.Printf("  swamp %d: %s island %d\n", i, s.name, s.island)
		}
	}
	var v *Result
	reopened := false
	legacy := map[string]bool{}
	var kinds []string
	var crashImg *simdisk.Disk
	if c.cfg("crashnew", 0) == 1 {
		// phase 1, in a bubble of its own: a server creates the first swamp's file; then the image of a crash inside
		// that creation is materialised from the disk's operation log
		d0 := simdisk.New()
		runSim(t, &Sched{Seed: c.Seed ^ 0xc4a5}, func() {
			srv := startServer(d0, 2, wi)
			cl := &gwClient{srv: srv, island: sws[0].island, timeout: 120 * time.Second}
			for _, s := range []string{"sanctA", "sanct-B", "s.c", "legacy"} {
				cl.register(s+"/*/*", false, 2, wi)
			}
			val := "v"
			cl.set(sws[0].name, []*hydrapb.KeyValuePair{{Key: "k0", StringVal: &val}}, true, true)
			simrt.Sleep(1500 * time.Millisecond)
			srv.stop(5 * time.Minute)
		})
		log := d0.Log()
		for j, op := range log {
			if op.Kind == simdisk.OpCreate && strings.HasSuffix(op.Path, ".hyd") {
				cut := j + 1 + int(c.cfg("crash_cut", 0))
				if cut > len(log) {
					cut = len(log)
				}
				torn := -1
				if cut < len(log) && log[cut].Kind == simdisk.OpWrite && len(log[cut].Data) > 1 {
					if f := int(c.cfg("crash_tear", 0)); f > 0 {
						torn = len(log[cut].Data) * f / 4
					}
				}
				crashImg = d0.ImageAt(cut, torn)
				res.count("runs_started_on_a_crash_image_of_a_file_creation", 1)
				break
			}
		}
	}
	out := runSim(t, c.Sched, func() {
		disk := simdisk.New()
		if crashImg != nil {
			disk = crashImg
		}
		srv := startServer(disk, 2, wi)
		cl := &gwClient{srv: srv, island: 1, timeout: 120 * time.Second}
		for _, s := range []string{"sanctA", "sanct-B", "s.c", "legacy"} {
			cl.register(s+"/*/*", false, 2, wi)
		}
		if crashImg != nil {
			// whatever the crash left of the first swamp: after this write it holds k0
			val := "v"
			cl.island = sws[0].island
			if _, err := cl.set(sws[0].name, []*hydrapb.KeyValuePair{{Key: "k0", StringVal: &val}}, true, true); err != nil {
				r := violation("set_error_after_crash_recovery", "Set(%s) on the recovered server: %v", sws[0].name, err)
				v = &r
				return
			}
			sws[0].keys["k0"] = true
			// let the write reach the file (which recreates a torn remnant) before anything else is asked of the swamp:
			// an explicit CompactSwamp on the bare remnant fails with EOF, which is not what this property is about
			simrt.Sleep(1500 * time.Millisecond)
		}
		closedOnce := false
		bulkCtr := 0
		for i, op := range c.Ops {
			if cl.hung != "" || simrt.Aborted() {
				break
			}
			kinds = append(kinds, op.K)
			switch op.K {
			case "idle":
				simrt.Sleep(6 * time.Second)
				closedOnce = true
				continue
			case "restart":
				if !srv.stop(5 * time.Minute) {
					r := violation("graceful_stop_never_returns", "op %d", i)
					v = &r
					return
				}
				srv = startServer(disk, 2, wi)
				cl = &gwClient{srv: srv, island: 1, timeout: 120 * time.Second}
				closedOnce = true
				continue
			case "legacy":
				// a file in the legacy header format: version 2, name stored as a metadata entry in the first block
				name := fmt.Sprintf("legacy/%s/old%d", c29Parts[op.A[0]], op.A[0])
				p := fmt.Sprintf("%s/data/9/%02x/legacy%d.hyd", simRoot, op.A[0], op.A[0])
				save := sos.Disk()
				tmp := simdisk.New()
				sos.SetDisk(tmp)
				tmp.MkdirAll("/t")
				w, err := v2.NewFileWriter("/t/x.hyd", 16384)
				if err == nil {
					w.WriteEntry(v2.Entry{Operation: v2.OpMetadata, Key: v2.MetadataEntryKey, Data: []byte(name)})
					w.WriteEntry(v2.Entry{Operation: v2.OpInsert, Key: "k", Data: gobTreasure("k", []byte("v"))})
					w.Close()
				}
				b, _ := tmp.ReadFile("/t/x.hyd")
				sos.SetDisk(save)
				if len(b) > 6 {
					binary.LittleEndian.PutUint16(b[4:6], 2)
					disk.PutFile(p, b)
					legacy[name] = true
				}
				continue
			}
			s := sws[int(op.A[0])%len(sws)]
			cl.island = s.island
			switch op.K {
			case "bulk":
				bulkCtr++
				var ins, upd []*hydrapb.KeyValuePair
				for j := int64(0); j < op.A[1]; j++ {
					v1 := fmt.Sprintf("b%d-%d", bulkCtr, j)
					ins = append(ins, &hydrapb.KeyValuePair{Key: fmt.Sprintf("bulk%03d", j), StringVal: &v1})
					if j < op.A[2] {
						v2 := v1 + "-updated"
						upd = append(upd, &hydrapb.KeyValuePair{Key: fmt.Sprintf("bulk%03d", j), StringVal: &v2})
					}
				}
				if closedOnce && len(s.keys) > 0 {
					reopened = true
				}
				if _, err := cl.set(s.name, ins, true, true); err != nil {
					r := violation("set_error", "op %d: bulk Set(%s): %v", i, s.name, err)
					v = &r
					return
				}
				simrt.Sleep(1500 * time.Millisecond) // one flush for the inserts, one for the updates
				if len(upd) > 0 {
					cl.set(s.name, upd, true, true)
				}
				for j := int64(0); j < op.A[1]; j++ {
					s.keys[fmt.Sprintf("bulk%03d", j)] = true
				}
			case "set":
				key := fmt.Sprintf("k%d", op.A[1])
				val := "v"
				if closedOnce && len(s.keys) > 0 {
					reopened = true
				}
				if _, err := cl.set(s.name, []*hydrapb.KeyValuePair{{Key: key, StringVal: &val}}, true, true); err != nil {
					r := violation("set_error", "op %d: Set(%s): %v", i, s.name, err)
					v = &r
					return
				}
				s.keys[key] = true
			case "del":
				key := fmt.Sprintf("k%d", op.A[1])
				if len(s.keys) == 0 {
					continue
				}
				cl.del(s.name, []string{key})
				delete(s.keys, key)
			case "compact":
				if len(s.keys) == 0 {
					continue
				}
				var err error
				cl.call("CompactSwamp", func() {
					_, err = srv.gw.CompactSwamp(ctxBg, &hydrapb.CompactSwampRequest{IslandID: s.island, SwampName: s.name})
				})
				if err != nil {
					r := violation("compact_error", "op %d: CompactSwamp(%s): %v", i, s.name, err)
					v = &r
					return
				}
				reopened = true
			case "destroy":
				cl.destroy(s.name)
				s.keys = map[string]bool{}
			}
		}
		if cl.hung != "" {
			r := violation("request_never_returns_"+cl.hung, "a %s request had not returned after 120 simulated seconds", cl.hung)
			v = &r
			return
		}
		if !srv.stop(5 * time.Minute) {
			r := violation("graceful_stop_never_returns", "at the end")
			v = &r
			return
		}
		if os.Getenv("VERIF_DEBUG") != "" {
			for _, r := range srv.logs.records {
				fmt.Printf("  log: %s\n", oneLine(r, 300))
			}
			for _, p := range disk.Walk("/") {
				fmt.Printf("  file: %s\n", p)
			}
		}
		// 1. fast name lookup on every file
		want := map[string]bool{}
		for _, s := range sws {
			if len(s.keys) > 0 {
				want[s.name] = true
			}
		}
		for n := range legacy {
			want[n] = true
		}
		found := map[string]string{}
		for _, p := range disk.Walk(simRoot + "/data") {
			if !strings.HasSuffix(p, ".hyd") {
				continue
			}
			n, err := v2.ReadSwampName(p)
			if err != nil {
				r := violation("name_lookup_error", "ReadSwampName(%s): %v", p, err)
				v = &r
				return
			}
			if prev, dup := found[n]; dup {
				r := violation("two_files_report_one_name", "%s and %s both report the name %q", prev, p, n)
				v = &r
				return
			}
			found[n] = p
		}
		var wantL, gotL []string
		for n := range want {
			wantL = append(wantL, n)
		}
		for n := range found {
			gotL = append(gotL, n)
		}
		sort.Strings(wantL)
		sort.Strings(gotL)
		if fmt.Sprint(wantL) != fmt.Sprint(gotL) {
			r := violation("name_lookup_disagrees_with_swamps_on_disk", "files on disk report %q, swamps holding records are %q", gotL, wantL)
			v = &r
			return
		}
		// 2. the explorer's listing
		ex := explorer.New(simRoot + "/data")
		var scanErr error
		id := simrt.GoID(func() { scanErr = ex.Scan(context.Background()) })
		if !simrt.JoinIDs([]int32{id}, 10*time.Minute) {
			r := violation("explorer_scan_never_returns", "Scan had not returned after 10 simulated minutes")
			v = &r
			return
		}
		if scanErr != nil {
			r := violation("explorer_scan_error", "%v", scanErr)
			v = &r
			return
		}
		var listed []string
		for _, san := range ex.ListSanctuaries() {
			for _, realm := range ex.ListRealms(san.Name) {
				for _, d := range ex.ListAllSwamps(san.Name, realm.Name) {
					listed = append(listed, d.Sanctuary+"/"+d.Realm+"/"+d.Swamp)
				}
			}
		}
		sort.Strings(listed)
		if fmt.Sprint(listed) != fmt.Sprint(wantL) {
			r := violation("explorer_listing_differs", "explorer lists %q, swamps on disk are %q", listed, wantL)
			v = &r
			return
		}
	})
	res.SimNanos = out.stats.SimNanos
	res.TraceHash = out.stats.Hash
	res.PreemptSteps = out.stats.PreemptSteps
	res.count("sched_steps", out.stats.Steps)
	if out.rootPanic != "" {
		return violation("harness_panic", "root: %s", out.rootPanic)
	}
	if out.escaped != "" {
		return violation("server_goroutine_panic", "%s", oneLine(out.escaped, 400))
	}
	if v != nil {
		v.Counters, v.SimNanos, v.TraceHash, v.PreemptSteps = res.Counters, res.SimNanos, res.TraceHash, res.PreemptSteps
		return *v
	}
	if out.aborted || out.stats.OverBudget {
		return Result{Verdict: "inconclusive", Detail: "scheduler budget exhausted"}
	}
	res.Verdict = "ok"
	res.Nontrivial = reopened
	var names []string
	for _, s := range sws {
		names = append(names, fmt.Sprint(s.name, len(s.keys)))
	}
	res.Fingerprint = fnv(names, kinds)
	return res
}
