package zzharness

import (
	"context"
	"fmt"
	"math"
	"os"
	"sort"
	"strings"
	"testing"
	"time"

	hydrapb "github.com/hydraide/hydraide/sdk/go/hydraidego/v3/hydraidepbgo"
	"github.com/hydraide/hydraide/app/zzsim/simdisk"
	"github.com/hydraide/hydraide/app/zzsim/simrt"
	"github.com/vmihailenco/msgpack/v5"
	"github.com/hydraide/hydraide/app/server/gateway"
	"google.golang.org/grpc/metadata"
	"google.golang.org/protobuf/proto"
	"google.golang.org/protobuf/types/known/timestamppb"
)

// C08 — accelerated and full-scan query routes agree.
//
// A swamp of msgpack-bodied records whose fields cover every body value kind is mutated (whole-record saves,
// single-field patches, deletes, reloads) before, after and - in the concurrent variant - while the auto-built
// field index is built. Every query is issued twice against the quiescent swamp: as generated (the planner may
// answer it through the field index) and wrapped into OR{SubGroups:[F]}, which the planner always answers by a
// full scan and which is logically the same filter. The two streams must be equal.

func init() {
	register(&Property{
		ID:    "C08",
		Level: "exploration",
		Rule: "cases = 3..14 records with seeded bodies (fields i/s/b/f/t/n of every msgpack kind incl. NaN, nil and missing, nested map, slice of maps, slice of scalars) and seeded created/updated/expiry times x <=24 steps: whole-record Set, single-field PatchTreasures, Delete, idle eviction, restart, query pairs; 30% of the cases run a writer concurrently with the first (index-building) query; " +
			"queries = AND/OR group of 1..3 legs (+ optional sub-group, + optional nested-slice member ANY/ALL/NONE over arr) over paths i, s, nest.x, arr[*].v, tags[*], arr.#len with EQUAL of every compare kind / STRING_IN / INT32_IN / INT64_IN / NOT_EQUAL / GREATER_THAN / IS_EMPTY / CONTAINS, optional labels, index key/creation/update/expiration asc/desc, From, Limit, MaxResults, time window, Include/ExcludeKeys, KeysOnly; " +
			"oracle: stream(F) == stream(OR{SubGroups:[F]}) record by record (order compared up to ties of the sort attribute), same bodies, same matched labels; non-trivial = the planner chose the index route and at least one record matched; distinct = hash of (contents, query)",
		Gen: genC08,
		Run: runC08,
		Sim: true,
		Assumptions: []string{"OR with a single sub-group is logically the sub-group itself; the planner's route decision is read from gateway.PlanFilter only to count coverage, never to decide the verdict"},
		Real:        append([]string{"gateway.GetByIndexStream (bucket and bypass branches)", "gateway.PlanFilter / collectBucketCandidates / applyTimeRange / sortCandidates / applyFromLimit", "filter_native evaluation", "swamp buckets (cold build, pending drain, insert/update/delete notifications)", "valuecanon"}, gwReal...),
		Stub:        append([]string{"grpc server stream (recording fake)"}, gwStub...),
	})
}

// ops: put A=[key, bodySeed, metaSeed] | patch A=[key, field, valueIdx] | del A=[key] | idle | restart |
//      q A=[querySeed] | cq A=[querySeed, key, bodySeed] (writer concurrent with the first query)
func genC08(seed uint64, tier string) Case {
	r := newRng(seed, "c08")
	c := Case{Prop: "C08", Seed: seed, Cfg: map[string]int64{}}
	c.Cfg["write_interval"] = int64(r.intn(2))
	n := 3 + r.intn(12)
	for i := 0; i < n; i++ {
		c.Ops = append(c.Ops, Op{K: "put", A: []int64{int64(i), int64(r.next() >> 1), int64(r.next() >> 1)}})
	}
	steps := 3 + r.intn(22)
	conc := r.chance(3, 10)
	for i := 0; i < steps; i++ {
		switch r.pick(3, 3, 1, 1, 1, 10) {
		case 0:
			c.Ops = append(c.Ops, Op{K: "put", A: []int64{int64(r.intn(n + 2)), int64(r.next() >> 1), int64(r.next() >> 1)}})
		case 1:
			c.Ops = append(c.Ops, Op{K: "patch", A: []int64{int64(r.intn(n)), int64(r.intn(4)), int64(r.intn(len(c08Vals)))}})
		case 2:
			c.Ops = append(c.Ops, Op{K: "del", A: []int64{int64(r.intn(n))}})
		case 3:
			c.Ops = append(c.Ops, Op{K: "idle"})
		case 4:
			c.Ops = append(c.Ops, Op{K: "restart"})
		default:
			if conc && r.chance(1, 3) {
				c.Ops = append(c.Ops, Op{K: "cq", A: []int64{int64(r.next() >> 1), int64(r.intn(n)), int64(r.next() >> 1)}})
			} else {
				c.Ops = append(c.Ops, Op{K: "q", A: []int64{int64(r.next() >> 1)}})
			}
		}
	}
	c.Sched = genSched(r)
	return c
}

// body value pool: every kind the filter code distinguishes, with cross-kind "equal" values
var c08Vals = []any{
	int8(1), int16(1), int32(1), int64(1), uint8(1), uint16(1), uint32(1), uint64(1), float32(1), float64(1),
	int64(0), uint64(0), float64(0), int64(-1), float64(-1), int64(2), uint64(2), float64(1.5), float32(1.5),
	math.NaN(), int64(math.MaxInt64), uint64(math.MaxUint64), float64(1 << 53),
	true, false, "1", "a", "", "true", "1.5", "ab",
	time.Unix(1, 0).UTC(), nil,
}

func c08body(seed int64) map[string]any {
	r := newRng(uint64(seed), "body")
	pick := func() any { return c08Vals[r.intn(len(c08Vals))] }
	m := map[string]any{}
	if r.chance(5, 6) {
		m["i"] = pick()
	}
	if r.chance(5, 6) {
		m["s"] = []any{"a", "ab", "1", "", "b", int64(1), nil}[r.intn(7)]
	}
	if r.chance(1, 2) {
		m["nest"] = map[string]any{"x": pick()}
	}
	if r.chance(1, 2) {
		var arr []any
		for j := r.intn(4); j > 0; j-- {
			if r.chance(1, 6) {
				arr = append(arr, pick()) // a non-map element
			} else {
				arr = append(arr, map[string]any{"v": pick()})
			}
		}
		m["arr"] = arr
	}
	if r.chance(1, 2) {
		var tags []any
		for j := r.intn(4); j > 0; j-- {
			tags = append(tags, pick())
		}
		m["tags"] = tags
	}
	return m
}

func c08encode(m map[string]any) []byte {
	b, err := msgpack.Marshal(m)
	if err != nil {
		panic(err)
	}
	return append([]byte{0xC7, 0x00}, b...)
}

var c08Paths = []string{"i", "s", "nest.x", "arr[*].v", "tags[*]", "arr.#len", "i", "i", "missing"}

func c08leg(r *rng) *hydrapb.TreasureFilter {
	p := c08Paths[r.intn(len(c08Paths))]
	f := &hydrapb.TreasureFilter{BytesFieldPath: &p}
	if r.chance(1, 3) {
		l := fmt.Sprintf("L%d", r.intn(4))
		f.Label = &l
	}
	setVal := func() {
		switch r.intn(13) {
		case 0:
			f.CompareValue = &hydrapb.TreasureFilter_Int8Val{Int8Val: int32(r.intn(3)) - 1 + 1}
		case 1:
			f.CompareValue = &hydrapb.TreasureFilter_Int16Val{Int16Val: int32(r.intn(3))}
		case 2:
			f.CompareValue = &hydrapb.TreasureFilter_Int32Val{Int32Val: int32(r.intn(4)) - 1}
		case 3:
			f.CompareValue = &hydrapb.TreasureFilter_Int64Val{Int64Val: []int64{1, 0, -1, 2, math.MaxInt64, 1 << 53}[r.intn(6)]}
		case 4:
			f.CompareValue = &hydrapb.TreasureFilter_Uint8Val{Uint8Val: uint32(r.intn(3))}
		case 5:
			f.CompareValue = &hydrapb.TreasureFilter_Uint16Val{Uint16Val: uint32(r.intn(3))}
		case 6:
			f.CompareValue = &hydrapb.TreasureFilter_Uint32Val{Uint32Val: uint32(r.intn(3))}
		case 7:
			f.CompareValue = &hydrapb.TreasureFilter_Uint64Val{Uint64Val: []uint64{1, 0, 2, math.MaxUint64}[r.intn(4)]}
		case 8:
			f.CompareValue = &hydrapb.TreasureFilter_Float32Val{Float32Val: []float32{1, 1.5, 0, -1}[r.intn(4)]}
		case 9:
			f.CompareValue = &hydrapb.TreasureFilter_Float64Val{Float64Val: []float64{1, 1.5, 0, -1, math.NaN(), 1 << 53}[r.intn(6)]}
		case 10, 11:
			f.CompareValue = &hydrapb.TreasureFilter_StringVal{StringVal: []string{"a", "1", "", "ab", "true", "1.5", "b"}[r.intn(7)]}
		default:
			f.CompareValue = &hydrapb.TreasureFilter_BoolVal{BoolVal: []hydrapb.Boolean_Type{hydrapb.Boolean_TRUE, hydrapb.Boolean_FALSE}[r.intn(2)]}
		}
	}
	switch r.pick(10, 2, 2, 2, 2, 2, 1, 1) {
	case 0:
		f.Operator = hydrapb.Relational_EQUAL
		setVal()
	case 1:
		f.Operator = hydrapb.Relational_STRING_IN
		for j := 1 + r.intn(3); j > 0; j-- {
			f.StringInVals = append(f.StringInVals, []string{"a", "1", "", "ab", "true", "b"}[r.intn(6)])
		}
	case 2:
		f.Operator = hydrapb.Relational_INT32_IN
		for j := 1 + r.intn(3); j > 0; j-- {
			f.Int32InVals = append(f.Int32InVals, int32(r.intn(4))-1)
		}
	case 3:
		f.Operator = hydrapb.Relational_INT64_IN
		for j := 1 + r.intn(3); j > 0; j-- {
			f.Int64InVals = append(f.Int64InVals, []int64{1, 0, -1, 2, math.MaxInt64}[r.intn(5)])
		}
	case 4:
		f.Operator = hydrapb.Relational_NOT_EQUAL
		setVal()
	case 5:
		f.Operator = hydrapb.Relational_GREATER_THAN
		setVal()
	case 6:
		f.Operator = hydrapb.Relational_IS_EMPTY
	default:
		f.Operator = hydrapb.Relational_CONTAINS
		f.CompareValue = &hydrapb.TreasureFilter_StringVal{StringVal: "a"}
	}
	return f
}

func c08group(r *rng, depth int) *hydrapb.FilterGroup {
	g := &hydrapb.FilterGroup{Logic: []hydrapb.FilterLogic_Type{hydrapb.FilterLogic_AND, hydrapb.FilterLogic_OR}[r.intn(2)]}
	for j := 1 + r.intn(3); j > 0; j-- {
		g.Filters = append(g.Filters, c08leg(r))
	}
	if depth == 0 && r.chance(1, 4) {
		g.SubGroups = append(g.SubGroups, c08group(r, 1))
	}
	if r.chance(1, 4) {
		// a member the field index cannot answer: some/every/no element of the slice of maps satisfies a condition
		vp := "v"
		leg := c08leg(r)
		leg.BytesFieldPath = &vp
		ns := &hydrapb.NestedSliceWhereFilter{EvalMode: []hydrapb.NestedSliceWhereFilter_Mode{hydrapb.NestedSliceWhereFilter_ANY, hydrapb.NestedSliceWhereFilter_ALL, hydrapb.NestedSliceWhereFilter_NONE}[r.intn(3)],
			SlicePath: "arr", Conditions: &hydrapb.FilterGroup{Logic: hydrapb.FilterLogic_AND, Filters: []*hydrapb.TreasureFilter{leg}}}
		if r.chance(1, 2) {
			l := fmt.Sprintf("N%d", r.intn(3))
			ns.Label = &l
		}
		g.NestedSliceWhereFilters = append(g.NestedSliceWhereFilters, ns)
	}
	return g
}

type c08meta struct{ created, updated, expired int64 }

type c08stream struct {
	ctx context.Context
	got []*hydrapb.GetByIndexStreamResponse
}

func (f *c08stream) SetHeader(metadata.MD) error  { return nil }
func (f *c08stream) SendHeader(metadata.MD) error { return nil }
func (f *c08stream) SetTrailer(metadata.MD)       {}
func (f *c08stream) Context() context.Context     { return f.ctx }
func (f *c08stream) RecvMsg(m any) error          { return nil }
func (f *c08stream) SendMsg(m any) error          { return nil }
func (f *c08stream) Send(m *hydrapb.GetByIndexStreamResponse) error {
	f.got = append(f.got, m)
	return nil
}

func c08query(seed int64, swamp string, base time.Time, nkeys int) *hydrapb.GetByIndexStreamRequest {
	r := newRng(uint64(seed), "query")
	q := &hydrapb.GetByIndexStreamRequest{IslandID: 1, SwampName: swamp, Filters: c08group(r, 0)}
	q.IndexType = []hydrapb.IndexType_Type{hydrapb.IndexType_KEY, hydrapb.IndexType_CREATION_TIME, hydrapb.IndexType_UPDATE_TIME, hydrapb.IndexType_EXPIRATION_TIME}[r.intn(4)]
	q.OrderType = []hydrapb.OrderType_Type{hydrapb.OrderType_ASC, hydrapb.OrderType_DESC}[r.intn(2)]
	if r.chance(1, 3) {
		q.From = int32(r.intn(4))
	}
	if r.chance(1, 3) {
		q.Limit = int32(1 + r.intn(5))
	}
	if r.chance(1, 4) {
		q.MaxResults = int32(1 + r.intn(3))
	}
	if (q.IndexType != hydrapb.IndexType_KEY || r.chance(1, 3)) && r.chance(1, 3) {
		if r.chance(2, 3) {
			q.FromTime = timestamppb.New(base.Add(time.Duration(r.intn(8)) * time.Second))
		}
		if r.chance(2, 3) {
			q.ToTime = timestamppb.New(base.Add(time.Duration(2+r.intn(10)) * time.Second))
		}
	}
	if r.chance(1, 6) {
		for j := 1 + r.intn(3); j > 0; j-- {
			q.ExcludeKeys = append(q.ExcludeKeys, fmt.Sprintf("r%02d", r.intn(nkeys)))
		}
	}
	if r.chance(1, 8) {
		for j := 1 + r.intn(4); j > 0; j-- {
			q.IncludedKeys = append(q.IncludedKeys, fmt.Sprintf("r%02d", r.intn(nkeys)))
		}
	}
	q.KeysOnly = r.chance(1, 5)
	return q
}

func runC08(t *testing.T, c Case) (res Result) {
	swamp := "verif/per/query"
	wi := c.cfg("write_interval", 0)
	var v *Result
	indexRoute, matchedAny := false, false
	var fps []uint64
	nkeys := 0
	for _, op := range c.Ops {
		if op.K == "put" && int(op.A[0])+1 > nkeys {
			nkeys = int(op.A[0]) + 1
		}
	}
	out := runSim(t, c.Sched, func() {
		disk := simdisk.New()
		srv := startServer(disk, 5, wi)
		cl := &gwClient{srv: srv, island: 1, timeout: 120 * time.Second}
		cl.register("verif/per/*", false, 5, wi)
		base := time.Now()
		meta := map[string]*c08meta{}
		bodies := map[string]map[string]any{}
		put := func(cli *gwClient, key string, bodySeed, metaSeed int64) bool {
			mr := newRng(uint64(metaSeed), "meta")
			kv := &hydrapb.KeyValuePair{Key: key, BytesVal: c08encode(c08body(bodySeed))}
			m := &c08meta{}
			if mr.chance(4, 5) {
				m.created = base.Add(time.Duration(mr.intn(10)) * time.Second).UnixNano()
				kv.CreatedAt = timestamppb.New(time.Unix(0, m.created))
			}
			if mr.chance(4, 5) {
				m.updated = base.Add(time.Duration(mr.intn(10)) * time.Second).UnixNano()
				kv.UpdatedAt = timestamppb.New(time.Unix(0, m.updated))
			}
			if mr.chance(4, 5) {
				m.expired = base.Add(time.Duration(mr.intn(10)) * time.Second).UnixNano()
				kv.ExpiredAt = timestamppb.New(time.Unix(0, m.expired))
			}
			resp, err := cli.set(swamp, []*hydrapb.KeyValuePair{kv}, true, true)
			if err != nil || resp == nil {
				return false
			}
			if old := meta[key]; old != nil && old.created != 0 {
				m.created = old.created // created-at is only taken on creation... the model is refreshed from a read below
			}
			meta[key] = m
			bodies[key] = c08body(bodySeed)
			return true
		}
		run := func(q *hydrapb.GetByIndexStreamRequest) ([]*hydrapb.GetByIndexStreamResponse, error) {
			st := &c08stream{ctx: context.Background()}
			var err error
			cl.call("GetByIndexStream", func() { err = srv.gw.GetByIndexStream(q, st) })
			return st.got, err
		}
		// the sort attribute of every record, read back from the server (so that ties are known without modelling
		// which metadata a save keeps)
		attrs := func() map[string]*c08meta {
			resp, err := cl.getAll(swamp)
			m := map[string]*c08meta{}
			if err != nil {
				return m
			}
			for _, tr := range resp.GetTreasures() {
				x := &c08meta{}
				if tr.CreatedAt != nil {
					x.created = tr.CreatedAt.AsTime().UnixNano()
				}
				if tr.UpdatedAt != nil {
					x.updated = tr.UpdatedAt.AsTime().UnixNano()
				}
				if tr.ExpiredAt != nil {
					x.expired = tr.ExpiredAt.AsTime().UnixNano()
				}
				m[tr.Key] = x
			}
			return m
		}
		compare := func(i int, seed int64) {
			q := c08query(seed, swamp, base, nkeys)
			scan := protoCloneQuery(q)
			scan.Filters = &hydrapb.FilterGroup{Logic: hydrapb.FilterLogic_OR, SubGroups: []*hydrapb.FilterGroup{q.Filters}}
			a, errA := run(q)
			b, errB := run(scan)
			if cl.hung != "" {
				return
			}
			if (errA == nil) != (errB == nil) {
				r := violation("routes_disagree_on_error", "step %d: %s: as given err=%v, forced scan err=%v", i, c08describe(q), errA, errB)
				v = &r
				return
			}
			at := attrs()
			sortKey := func(k string) string {
				x := at[k]
				if x == nil {
					x = &c08meta{}
				}
				switch q.IndexType {
				case hydrapb.IndexType_CREATION_TIME:
					return fmt.Sprint(x.created)
				case hydrapb.IndexType_UPDATE_TIME:
					return fmt.Sprint(x.updated)
				case hydrapb.IndexType_EXPIRATION_TIME:
					return fmt.Sprint(x.expired)
				}
				return k
			}
			// MaxResults may cut a group of records that tie on the sort attribute; which members of that
			// group are streamed is then not determined ("same order up to ties"): the cut group is compared by
			// size only
			cut := func(rs []*hydrapb.GetByIndexStreamResponse) []*hydrapb.GetByIndexStreamResponse {
				if q.MaxResults <= 0 || int32(len(rs)) < q.MaxResults {
					return rs
				}
				last := sortKey(rs[len(rs)-1].GetTreasure().GetKey())
				n := len(rs)
				for n > 0 && sortKey(rs[n-1].GetTreasure().GetKey()) == last {
					n--
				}
				return rs[:n]
			}
			render := func(rs []*hydrapb.GetByIndexStreamResponse) []string {
				// groups of equal sort attribute are compared as sets
				var out []string
				var grp []string
				last := "\x00"
				flush := func() {
					sort.Strings(grp)
					out = append(out, grp...)
					grp = nil
				}
				for _, r := range rs {
					k := r.GetTreasure().GetKey()
					if sk := sortKey(k); sk != last {
						flush()
						last = sk
					}
					labels := append([]string{}, r.GetMeta().GetMatchedLabels()...)
					sort.Strings(labels)
					grp = append(grp, fmt.Sprintf("%s labels=%v body=%x", k, labels, r.GetTreasure().GetBytesVal()))
				}
				flush()
				return out
			}
			ra, rb := render(cut(a)), render(cut(b))
			if len(a) != len(b) {
				ra = append(ra, fmt.Sprintf("(%d records)", len(a)))
				rb = append(rb, fmt.Sprintf("(%d records)", len(b)))
			}
			if len(a) > 0 || len(b) > 0 {
				matchedAny = true
			}
			plan := gatewayPlanMode(q.Filters)
			if plan != 0 {
				indexRoute = true
			}
			fps = append(fps, fnv(seed, len(bodies), fmt.Sprint(ra)))
			if fmt.Sprint(ra) != fmt.Sprint(rb) {
				cls := "routes_return_different_records"
				ka, kb := c08keys(a), c08keys(b)
				switch {
				case fmt.Sprint(ka) == fmt.Sprint(kb):
					cls = "routes_differ_in_labels_or_bodies"
				case sameSet(ka, kb):
					cls = "routes_differ_in_order"
				case q.From != 0 || q.Limit != 0:
					cls = "routes_page_differently(from_limit)"
				}
				if os.Getenv("VERIF_DEBUG") != "" {
					resp, _ := cl.getAll(swamp)
					for _, tr := range resp.GetTreasures() {
						var m map[string]any
						msgpack.Unmarshal(tr.BytesVal[2:], &m)
						fmt.Printf("  rec %s i=%T(%v) created=%v updated=%v expired=%v\n", tr.Key, m["i"], m["i"], tr.CreatedAt.AsTime().Unix(), tr.UpdatedAt.AsTime().Unix(), tr.ExpiredAt.AsTime().Unix())
					}
				}
				r := violation(cls, "step %d: %s: as given (planner mode %d) -> %s ; forced scan -> %s", i, c08describe(q), plan, c08short(ra), c08short(rb))
				v = &r
			}
		}
		for i, op := range c.Ops {
			if v != nil || cl.hung != "" || simrt.Aborted() {
				break
			}
			key := ""
			if len(op.A) > 0 {
				key = fmt.Sprintf("r%02d", op.A[0])
			}
			switch op.K {
			case "put":
				if !put(cl, key, op.A[1], op.A[2]) {
					r := violation("set_error", "step %d: Set(%s) failed", i, key)
					v = &r
				}
			case "patch":
				if bodies[key] == nil {
					continue
				}
				path := []string{"i", "s", "nest.x", "n"}[op.A[1]]
				val := c08Vals[op.A[2]]
				var resp *hydrapb.PatchTreasuresResponse
				var err error
				cl.call("PatchTreasures", func() {
					resp, err = srv.gw.PatchTreasures(ctxBg, &hydrapb.PatchTreasuresRequest{IslandID: 1, SwampName: swamp,
						Patches: []*hydrapb.TreasurePatch{{Key: key, Ops: []*hydrapb.PatchOp{{Op: hydrapb.PatchOp_SET, Path: path, Value: mp(val)}}}}})
				})
				_, _ = resp, err // a patch may legitimately be refused (path through a non-map): both routes read whatever is stored
			case "del":
				if bodies[key] == nil {
					continue
				}
				cl.del(swamp, []string{key})
				delete(bodies, key)
				delete(meta, key)
			case "idle":
				simrt.Sleep(12 * time.Second)
			case "restart":
				if !srv.stop(5 * time.Minute) {
					r := violation("graceful_stop_never_returns", "step %d", i)
					v = &r
					return
				}
				srv = startServer(disk, 5, wi)
				cl = &gwClient{srv: srv, island: 1, timeout: 120 * time.Second}
				cl.register("verif/per/*", false, 5, wi)
			case "q":
				if len(bodies) == 0 {
					continue
				}
				compare(i, op.A[0])
			case "cq":
				if len(bodies) == 0 {
					continue
				}
				// a writer runs while the as-given query (and with it a cold index build) is in progress; the verdict
				// comes from the pair issued after both have finished
				q := c08query(op.A[0], swamp, base, nkeys)
				wkey := fmt.Sprintf("r%02d", op.A[1])
				id := simrt.GoID(func() {
					w := &gwClient{srv: srv, island: 1, timeout: 120 * time.Second}
					put(w, wkey, op.A[2], op.A[2])
				})
				run(q)
				simrt.JoinIDs([]int32{id}, 5*time.Minute)
				compare(i, op.A[0])
			}
		}
		if cl.hung != "" && v == nil {
			r := violation("request_never_returns", "%s had not returned after 120 simulated seconds", cl.hung)
			v = &r
		}
		if e := srv.logs.find("grpc gateway panic"); e != "" && v == nil {
			r := violation("request_panicked", "a handler panicked: %s", oneLine(e, 400))
			v = &r
		}
		srv.stop(5 * time.Minute)
	})
	res.SimNanos = out.stats.SimNanos
	res.TraceHash = out.stats.Hash
	res.PreemptSteps = out.stats.PreemptSteps
	res.count("sched_steps", out.stats.Steps)
	fail := func(x Result) Result {
		x.TraceHash, x.PreemptSteps, x.SimNanos, x.Counters = res.TraceHash, res.PreemptSteps, res.SimNanos, res.Counters
		return x
	}
	if out.rootPanic != "" {
		return fail(violation("harness_panic", "root: %s", out.rootPanic))
	}
	if out.escaped != "" {
		return fail(violation("server_goroutine_panic", "a server goroutine panicked: %s", oneLine(out.escaped, 400)))
	}
	if out.aborted || out.stats.OverBudget {
		return Result{Verdict: "inconclusive", Detail: "scheduler budget exhausted"}
	}
	if v != nil {
		return fail(*v)
	}
	if os.Getenv("VERIF_DEBUG") != "" {
		fmt.Printf("  indexRoute=%v matchedAny=%v queries=%d\n", indexRoute, matchedAny, len(fps))
	}
	res.Verdict = "ok"
	res.Nontrivial = indexRoute && matchedAny
	res.Fingerprint = fnv(fps)
	res.FPs = fps
	return res
}

func c08keys(rs []*hydrapb.GetByIndexStreamResponse) []string {
	var out []string
	for _, r := range rs {
		out = append(out, r.GetTreasure().GetKey())
	}
	return out
}

func sameSet(a, b []string) bool {
	x, y := append([]string{}, a...), append([]string{}, b...)
	sort.Strings(x)
	sort.Strings(y)
	return fmt.Sprint(x) == fmt.Sprint(y)
}

func c08short(rs []string) string {
	var out []string
	for _, r := range rs {
		if i := strings.Index(r, " body="); i > 0 {
			r = r[:i]
		}
		out = append(out, r)
	}
	return "[" + strings.Join(out, "; ") + "]"
}

func c08describe(q *hydrapb.GetByIndexStreamRequest) string {
	var leg func(f *hydrapb.TreasureFilter) string
	leg = func(f *hydrapb.TreasureFilter) string {
		s := fmt.Sprintf("%s %v", f.GetBytesFieldPath(), f.GetOperator())
		switch cv := f.GetCompareValue().(type) {
		case nil:
		default:
			s += fmt.Sprintf(" %T(%v)", cv, strings.TrimSuffix(strings.SplitN(fmt.Sprint(cv), ":", 2)[len(strings.SplitN(fmt.Sprint(cv), ":", 2))-1], "}"))
		}
		if len(f.StringInVals) > 0 {
			s += fmt.Sprintf(" %q", f.StringInVals)
		}
		if len(f.Int32InVals) > 0 {
			s += fmt.Sprint(" ", f.Int32InVals)
		}
		if len(f.Int64InVals) > 0 {
			s += fmt.Sprint(" ", f.Int64InVals)
		}
		if f.Label != nil {
			s += " label=" + *f.Label
		}
		return s
	}
	var grp func(g *hydrapb.FilterGroup) string
	grp = func(g *hydrapb.FilterGroup) string {
		var parts []string
		for _, f := range g.Filters {
			parts = append(parts, leg(f))
		}
		for _, sg := range g.SubGroups {
			parts = append(parts, grp(sg))
		}
		return fmt.Sprintf("%v(%s)", g.Logic, strings.Join(parts, " | "))
	}
	s := fmt.Sprintf("query{%s index=%v %v", grp(q.Filters), q.IndexType, q.OrderType)
	if q.From != 0 || q.Limit != 0 || q.MaxResults != 0 {
		s += fmt.Sprintf(" from=%d limit=%d max=%d", q.From, q.Limit, q.MaxResults)
	}
	if q.FromTime != nil || q.ToTime != nil {
		s += " window"
	}
	if len(q.ExcludeKeys) > 0 || len(q.IncludedKeys) > 0 {
		s += fmt.Sprintf(" excl=%v incl=%v", q.ExcludeKeys, q.IncludedKeys)
	}
	if q.KeysOnly {
		s += " keysOnly"
	}
	return s + "}"
}

func protoCloneQuery(q *hydrapb.GetByIndexStreamRequest) *hydrapb.GetByIndexStreamRequest {
	return proto.Clone(q).(*hydrapb.GetByIndexStreamRequest)
}

// gatewayPlanMode reports which route the planner picks for a filter (0 = full scan); coverage counter only.
func gatewayPlanMode(f *hydrapb.FilterGroup) int {
	if gateway.PlanFilter(f).Mode == gateway.PlanModeBypass {
		return 0
	}
	return int(gateway.PlanFilter(f).Mode) + 1
}
